"""C14 — generated samples are valid, executable and consistent with their metadata."""
import ast
import json
import random
import re
import textwrap

from google.protobuf.descriptor import FieldDescriptor as FD

from vlib import apigen, pipeline, rdm, refs

ID = "C14"
LEVEL = "exploration"
RULE = ("cases = seeded APIs covering every calling form (unary, paged, LRO, server/client/bidi streaming, void, foreign request types) with "
        "REQUIRED fields of every kind (scalars, enums, nested messages, oneofs, resource references) x transports {grpc, grpc+rest, rest}; "
        "per RPC the expected region tags are looked up in snippet_metadata_*.json, each sample file is compiled and its sample_* function "
        "executed (default credentials and channel creation redirected to a loopback server that accepts every call), the request recorded "
        "by the server is judged for required leaves / oneofs, and metadata (client, method, async flag, parameters, result type, segments) "
        "and the docstring snippet are cross-checked with the file and the imported client; distinct = distinct (calling form, sync/async, "
        "transport, required-kind set) that held")
ASSUMPTIONS = ["a REQUIRED message field without REQUIRED leaves below it may be left unset by the sample (only required scalar/enum leaves, reached "
               "through required messages, are asserted)", "the asyncio client-streaming sample does not reach the server on the unchanged tree: "
               "recorded as 'request not observed', not judged", "google.auth.default and grpc channel creation are redirected to loopback"]
CASE_TIMEOUT = 500
PARALLEL = 12
MARKERS = {"CLIENT_INITIALIZATION": "# Create a client", "REQUEST_INITIALIZATION": "# Initialize request argument(s)",
           "REQUEST_EXECUTION": "# Make the request", "RESPONSE_HANDLING": "# Handle the response"}


def floors(tier):
    k = 1 if tier == "quick" else 8
    return {"samples_executed": 250 * k, "requests_judged": 200 * k, "metadata_entries_checked": 250 * k, "docstring_snippets_compared": 100 * k,
            "form:paged": 10 * k, "form:lro": 8 * k, "form:server": 8 * k, "form:bidi": 4 * k, "async_samples": 80 * k,
            "listed_methods_of_partly_internal_api": 15 * k}


def plan(seed, tier):
    n = 10 if tier == "quick" else 80
    trs = ["grpc", "grpc+rest", "grpc", "rest", "grpc"]
    cases = [{"id": f"smp-{seed}-{i}", "seed": seed * 100003 + i, "transport": trs[i % len(trs)]} for i in range(n)]
    # selective generation that keeps unlisted methods as internal: the samples of the LISTED methods of a partly internal service
    cases += [{"id": f"smp-int-{seed}-{i}", "seed": seed * 100003 + 6000 + i, "transport": "grpc", "internal": True} for i in range(max(3, n // 5))]
    return cases


def build_api(case):
    rng = random.Random(case["seed"])
    api = apigen.sample_api(rng, "e%d" % (case["seed"] % 100000), transport=case["transport"])
    if case.get("internal"):
        names = sorted(f"{fb.pb.package}.{s_.name}.{m_.name}" for fb in api.files if fb.pb.name in api.targets for s_ in fb.pb.service for m_ in s_.method)
        rng.shuffle(names)
        kept = sorted(names[: max(2, (2 * len(names)) // 3)])
        api.info["kept_rpcs"] = kept
        api.aux["service-yaml"] = ("svc.yaml", apigen.service_yaml(api, publishing=apigen.selective_publishing(api.info["pkg"], kept, internal=True)))
    return api


def calling_form(model, m):
    if m.client_streaming and m.server_streaming:
        return "bidi"
    if m.client_streaming:
        return "client"
    if m.server_streaming:
        return "server"
    if refs.lro_info(m):
        return "lro"
    pf = refs.paged_field(model, m)
    if pf and pf != "AMBIGUOUS":
        return "paged"
    return "void" if m.output_type == ".google.protobuf.Empty" else "unary"


def required_leaves(desc, prefix=""):
    out = []
    for f in refs.required_fields(desc):
        if f.type == FD.TYPE_MESSAGE and f.label != FD.LABEL_REPEATED and not f.message_type.full_name.startswith("google.protobuf."):
            out += required_leaves(f.message_type, prefix + f.name + ".")
        elif f.type != FD.TYPE_MESSAGE:
            out.append((prefix + f.name, f))
    return out


def run_case(case):
    scratch = pipeline.case_scratch("c14")
    api = build_api(case)
    req, g, lib = pipeline.build_and_generate(api, scratch)
    if not g.ok:
        return pipeline.gen_failed_result(g, api)
    model = rdm.Model(req)
    files = {f.name: f.content for f in g.response.file}
    viol, counters, sigs = [], {}, set()
    tr = case["transport"]

    def bump(k, n=1):
        counters[k] = counters.get(k, 0) + n

    def bad(clause, detail, **mech):
        viol.append({"clause": clause, "detail": detail, "mech": {"transport": tr, **mech}})

    metas = [n for n in files if n.startswith("samples/generated_samples/snippet_metadata_") and n.endswith(".json")]
    if len(metas) != 1:
        bad("snippet-metadata-file-count", metas)
        return {"verdict": "violated", "violations": viol, "evaluations": 1, "counters": counters}
    meta = json.loads(files[metas[0]])
    by_tag = {}
    for s in meta.get("snippets", []):
        if s["regionTag"] in by_tag:
            bad("region-tag-not-unique", s["regionTag"])
        by_tag[s["regionTag"]] = s
    from google.api import client_pb2
    ver = api.info["version"]
    kinds = ["sync"] + (["async"] if "grpc" in tr else [])
    samples = []
    expected_tags = set()
    kept_rpcs = api.info.get("kept_rpcs")
    for p, s, m in refs.target_methods(req):
        if kept_rpcs is not None and f"{p.package}.{s.name}.{m.name}" not in kept_rpcs:
            bump("internal_methods_not_judged")
            continue                    # samples of internal methods (tags ending in _internal) are outside C14's statement
        if kept_rpcs is not None:
            bump("listed_methods_of_partly_internal_api")
        form = calling_form(model, m)
        host_short = s.options.Extensions[client_pb2.default_host].split(".")[0]
        if host_short != api.info["host"].split(".")[0]:
            bump("samples_of_service_on_another_host")
        for kind in kinds:
            tag = f"{host_short}_{ver}_generated_{s.name}_{m.name}_{kind}"
            expected_tags.add(tag)
            e = by_tag.get(tag)
            if e is None:
                bad("sample-missing", {"rpc": m.name, "kind": kind, "expected_tag": tag}, form=form)
                continue
            fname = "samples/generated_samples/" + e.get("file", "")
            if fname not in files:
                bad("metadata-file-missing", {"tag": tag, "file": e.get("file")})
                continue
            samples.append({"tag": tag, "file": fname, "rpc": m.name, "service": s.name, "full_service": f"{p.package}.{s.name}", "kind": kind,
                            "form": form, "req_type": m.input_type.lstrip("."), "resp_type": m.output_type.lstrip("."), "meta": e,
                            "lro": refs.lro_info(m), "pkg": p.package})
    extra = {t for t in set(by_tag) - expected_tags if not (kept_rpcs is not None and t.endswith("_internal"))}
    if extra:
        bad("unexpected-samples", sorted(extra)[:6])
    # static checks + script
    script_samples = []
    for sm in samples:
        src = files[sm["file"]]
        try:
            tree = ast.parse(src)
        except SyntaxError as e:
            kw = bool(re.search(r"client\.(%s)\(" % "|".join(__import__("keyword").kwlist), e.text or ""))
            bad("sample-does-not-compile", {"file": sm["file"], "line": e.lineno, "text": (e.text or "").strip()[:120]}, form=sm["form"], keyword_rpc_call=kw)
            continue
        lines = src.split("\n")
        starts = [i for i, l in enumerate(lines) if l.strip() == f"# [START {sm['tag']}]"]
        ends = [i for i, l in enumerate(lines) if l.strip() == f"# [END {sm['tag']}]"]
        if len(starts) != 1 or len(ends) != 1 or starts[0] >= ends[0]:
            bad("region-tags-in-file", {"file": sm["file"], "starts": starts, "ends": ends})
            continue
        st, en = starts[0] + 1, ends[0] + 1          # 1-based line numbers of the tag lines
        sm["between"] = "\n".join(lines[st:en - 1])
        # imports: only the library's public package (and the request's own package when foreign)
        root_top = apigen.lib_root(api.info, api.options)
        for node in ast.walk(tree):
            mods = []
            if isinstance(node, ast.ImportFrom):
                mods = [(node.module or "") + "." + a.name for a in node.names]
            elif isinstance(node, ast.Import):
                mods = [a.name for a in node.names]
            for mname in mods:
                ok = mname == root_top or mname.startswith(root_top + ".") or mname.endswith("_pb2") or mname in ("asyncio",)
                if not ok:
                    bad("sample-imports-non-public-module", {"file": sm["file"], "import": mname})
        # metadata segments
        bump("metadata_entries_checked")
        segs = {x["type"]: x for x in sm["meta"].get("segments", [])}
        last_nonblank = max(i + 1 for i in range(st, en - 1) if lines[i].strip()) if any(lines[i].strip() for i in range(st, en - 1)) else st
        for t in ("FULL", "SHORT"):
            sg = segs.get(t)
            # the region strictly between the tag lines; the blank line before the END tag may or may not be counted
            if not sg or sg.get("start") != st + 1 or sg.get("end") not in (last_nonblank, en - 1):
                bad("segment-full-short", {"file": sm["file"], "segment": sg, "expected": {"start": st + 1, "end": [last_nonblank, en - 1]}}, segment=t)
        prev_end = st
        for t, marker in MARKERS.items():
            sg = segs.get(t)
            raw_sg = sg
            if sg is not None:
                sg = {"start": sg.get("start", 0), "end": sg.get("end", 0), "type": t}
            if sg is None:
                if marker in src:
                    bad("segment-missing", {"file": sm["file"], "segment": t})
                continue
            if not (st < sg["start"] <= sg["end"] < en + 1) or sg["start"] <= prev_end - 0 and t != "CLIENT_INITIALIZATION" and sg["start"] < prev_end:
                bad("segment-out-of-range", {"file": sm["file"], "segment": sg, "tags": [st, en]}, segment=t,
                    sample_has_no_response_handling=MARKERS["RESPONSE_HANDLING"] not in src,
                    # the recorded shape: REQUEST_EXECUTION with a start and no end, RESPONSE_HANDLING with an end and no start
                    open_segment_of_void_sample=(t == "REQUEST_EXECUTION" and bool(raw_sg.get("start")) and not raw_sg.get("end")) or
                                                (t == "RESPONSE_HANDLING" and bool(raw_sg.get("end")) and not raw_sg.get("start")))
            elif lines[sg["start"] - 1].strip() != marker:
                bad("segment-does-not-start-at-marker", {"file": sm["file"], "segment": sg, "line": lines[sg["start"] - 1].strip()[:80]}, segment=t)
            prev_end = sg["end"]
        cm = sm["meta"].get("clientMethod", {})
        script_samples.append({"tag": sm["tag"], "file": sm["file"], "kind": sm["kind"], "form": sm["form"], "path": f"/{sm['full_service']}/{sm['rpc']}",
                               "client": cm.get("client", {}).get("shortName"), "method": cm.get("shortName"), "async_flag": cm.get("async", False),
                               "params": [x["name"] for x in cm.get("parameters", [])], "result_type": cm.get("resultType"),
                               "reply": reply_for(model, sm), "rest_only": "grpc" not in tr})
    script = {"root_pkg": apigen.lib_root(api.info, api.options), "samples": script_samples, "transport": tr}
    ev, rc, err = pipeline.run_runner("checks.c14", script, lib, timeout=400)
    if ev is None or "runner_crash" in ev or "library_import_error" in ev:
        return pipeline.runner_failed_result(ev, rc, err, api)
    bytag = {s["tag"]: s for s in samples}
    sample_out = None
    late_paths = set()
    for ss, r in zip(script_samples, ev["samples"]):
        sm = bytag[ss["tag"]]
        form, kind = sm["form"], sm["kind"]
        if r.get("not_executed"):
            bump("rest_only_samples_static_only")
        else:
            bump("samples_executed")
        bump("form:" + form)
        if kind == "async":
            bump("async_samples")
        mech = {"form": form, "kind": kind}
        ok = True
        if r.get("error"):
            bad("sample-raises", {"file": sm["file"], "error": r["error"]}, **mech, exc_type=r["error"].get("type"),
                async_paged_without_await=(form == "paged" and kind == "async" and "__aiter__" in (r["error"].get("msg") or "")))
            ok = False
        # metadata vs client
        if not r["client_ok"]:
            bad("metadata-client-missing", {"tag": ss["tag"], "client": ss["client"]}, **mech)
        elif not r["method_ok"]:
            bad("metadata-method-missing", {"tag": ss["tag"], "client": ss["client"], "method": ss["method"]}, **mech)
        else:
            if (ss["client"] or "").endswith("AsyncClient") != bool(ss["async_flag"]) or bool(ss["async_flag"]) != (kind == "async"):
                bad("metadata-async-flag", {"tag": ss["tag"], "client": ss["client"], "async": ss["async_flag"]}, **mech)
            if r["sig_params"] != ss["params"]:
                bad("metadata-parameters", {"tag": ss["tag"], "metadata": ss["params"], "signature": r["sig_params"]}, **mech)
            rt_last = re.split(r"[\[\].]", (ss["result_type"] or "").rstrip("]"))[-1] if ss["result_type"] else ""
            if form != "void" and rt_last and rt_last not in (r.get("return_annotation") or ""):
                bad("metadata-result-type", {"tag": ss["tag"], "metadata": ss["result_type"], "annotation": r.get("return_annotation")}, **mech)
            # docstring snippet (sync samples are embedded in the sync client, async in the async client)
            doc = r.get("doc") or ""
            mm = re.search(r"\.\. code-block:: python\n(.*?)\n\s*Args:", doc, re.S)
            if mm:
                bump("docstring_snippets_compared")
                body = textwrap.dedent(mm.group(1)).strip("\n")
                want = sm.get("between", "")

                def norm(t):
                    return [l.rstrip() for l in t.split("\n") if l.strip()]

                if norm(body) != norm(want):
                    a, b = norm(body), norm(want)
                    i = next((k for k, (x, y) in enumerate(zip(a, b)) if x != y), min(len(a), len(b)))
                    bad("docstring-snippet-differs", {"tag": ss["tag"], "docstring_line": a[i:i + 1], "file_line": b[i:i + 1]}, **mech)
        # request seen by the server (a call of an earlier asyncio request-streaming sample may be recorded late: not this sample's)
        evs = [e for e in (r.get("events") or []) if e["method"] == ss["path"] or e["method"] not in late_paths]
        if not evs:
            if r.get("not_executed"):
                pass
            elif form in ("client", "bidi") and kind == "async":
                late_paths.add(ss["path"])
                bump("request_not_observed_async_client_streaming")
            elif not r.get("error"):
                bad("sample-sent-nothing", {"file": sm["file"]}, **mech)
                ok = False
        else:
            bump("requests_judged")
            d = model.desc(sm["req_type"])
            for e in evs[:1]:
                if e["method"] != ss["path"]:
                    bad("sample-called-other-rpc", {"file": sm["file"], "path": e["method"]}, **mech)
                for payload in e["requests"][:2]:
                    msg = model.parse(sm["req_type"], rdm.unb64(payload))
                    for path, fd in required_leaves(d):
                        v = refs.get_path(msg, path)
                        empty = v is None or (fd.label == FD.LABEL_REPEATED and len(v) == 0) or (fd.label != FD.LABEL_REPEATED and v == fd.default_value)
                        if empty and fd.type != FD.TYPE_ENUM or (fd.type == FD.TYPE_ENUM and v is None):
                            bad("required-field-not-populated", {"file": sm["file"], "field": path, "request": str(msg)[:200]}, **mech, field_type=fd.type)
                            ok = False
                            break
                    for o in d.oneofs:
                        if rdm._is_synthetic(o):
                            continue
                        if msg.WhichOneof(o.name) is None:
                            bad("oneof-not-populated", {"file": sm["file"], "oneof": o.name, "request": str(msg)[:200]}, **mech)
                            ok = False
        if ok:
            req_kinds = sorted({f"{fd.type}" for _, fd in required_leaves(model.desc(sm["req_type"]))})
            sigs.add(f"{form}|{kind}|{tr}|{','.join(req_kinds)}")
            if sample_out is None and evs and form in ("unary", "lro"):
                sample_out = {"file": sm["file"], "form": form, "kind": kind, "request_seen": str(model.parse(sm["req_type"], rdm.unb64(evs[0]["requests"][0])))[:300]}
    return {"verdict": "violated" if viol else "held", "violations": pipeline.diverse(viol, 40), "evaluations": counters.get("samples_executed", 0),
            "nontrivial_sigs": sorted(sigs), "counters": counters, "sample": sample_out or {"samples": len(script_samples)}}


def reply_for(model, sm):
    form = sm["form"]
    if form == "lro":
        op = model.new("google.longrunning.Operation")
        op.name = "operations/x"
        op.done = True
        rt = sm["lro"][0]
        rt = rt if rt.startswith(sm["pkg"] + ".") or rt.startswith("google.") else sm["pkg"] + "." + rt
        op.response.type_url = "type.googleapis.com/" + rt
        op.response.value = b""
        return {"payloads": [rdm.b64(op.SerializeToString())]}
    if form in ("server", "bidi"):
        return {"payloads": ["", ""]}
    return {"payloads": [""]}


# ---------------------------------------------------------------------------

def in_runner(script):
    import asyncio
    import importlib
    import importlib.util
    import inspect
    import os
    import sys
    import grpc
    from vlib import rt
    import google.auth
    from google.auth.credentials import AnonymousCredentials
    from google.api_core import grpc_helpers, grpc_helpers_async
    srv = rt.GrpcServer()
    http = rt.HttpServer()
    google.auth.default = lambda *a, **k: (AnonymousCredentials(), "proj")
    grpc_helpers.create_channel = lambda *a, **k: grpc.insecure_channel(srv.target)
    grpc_helpers_async.create_channel = lambda *a, **k: grpc.aio.insecure_channel(srv.target)
    lib = rt.Lib(script["root_pkg"])
    if script["transport"] == "rest":
        # samples construct Client() with defaults: point the REST transport at the loopback HTTP server
        for name in dir(lib.root):
            cls = getattr(lib.root, name)
            if isinstance(cls, type) and name.endswith("Client") and hasattr(cls, "get_transport_class"):
                T = cls.get_transport_class("rest")
                orig = T.__init__

                def init(self, *a, __orig=orig, **k):
                    k["host"] = http.host
                    k["url_scheme"] = "http"
                    k["credentials"] = AnonymousCredentials()
                    __orig(self, **k)

                T.__init__ = init
    libroot = [p for p in sys.path if p and os.path.isdir(os.path.join(p, "samples"))]
    base = libroot[0] if libroot else sys.path[0]
    out = []
    for s in script["samples"]:
        r = {"client_ok": False, "method_ok": False}
        cls = getattr(lib.root, s["client"] or "", None)
        if isinstance(cls, type):
            r["client_ok"] = True
            if s["method"] and hasattr(cls, s["method"]):
                r["method_ok"] = True
                fn = getattr(cls, s["method"])
                try:
                    sig = inspect.signature(fn)
                    r["sig_params"] = [p for p in sig.parameters if p != "self"]
                    r["return_annotation"] = str(sig.return_annotation)
                except Exception as e:  # noqa
                    r["sig_params"] = [f"<{e}>"]
                r["doc"] = fn.__doc__
        srv.script(s["path"], [s["reply"]], sticky=s["reply"])
        if script["transport"] == "rest":
            # placeholder request values ("name_value") cannot be transcoded client-side: REST-only samples are not executed
            r["not_executed"] = True
            r["events"] = []
            out.append(r)
            continue
        mark, hmark = srv.mark(), http.mark()
        try:
            spec = importlib.util.spec_from_file_location("sample_" + str(len(out)), os.path.join(base, s["file"]))
            mod = importlib.util.module_from_spec(spec)
            spec.loader.exec_module(mod)
            fns = [v for k, v in vars(mod).items() if k.startswith("sample_") and callable(v)]
            if len(fns) != 1:
                raise RuntimeError(f"{len(fns)} sample_* functions")
            devnull = open(os.devnull, "w")
            old = sys.stdout
            sys.stdout = devnull
            try:
                if inspect.iscoroutinefunction(fns[0]):
                    asyncio.run(asyncio.wait_for(fns[0](), timeout=20))
                else:
                    fns[0]()
            finally:
                sys.stdout = old
                devnull.close()
        except BaseException as e:  # noqa
            r["error"] = rt.exc_info(e)
        # the server records a call when its handler has read the whole request stream, which for an asyncio client-streaming
        # sample can be after the sample returned: wait briefly for it, so that it is not attributed to the next sample
        import time as _t
        for _ in range(40):
            if srv.since(mark) or "error" in r:
                break
            _t.sleep(0.025)
        r["events"] = srv.since(mark)
        if script["transport"] == "rest":
            r["http_events"] = len(http.since(hmark))
            if r["http_events"] and not r["events"]:
                r["events"] = []
                r["rest_sent"] = True
        out.append(r)
    srv.stop()
    return {"samples": out}
