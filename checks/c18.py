"""C18 — auto-populated request ids obey AIP-4235 at generation time and at call time."""
import json
import os
import random
import re
import urllib.parse

from google.protobuf import json_format

from vlib import apigen, pipeline, rdm, refs

ID = "C18"
LEVEL = "exploration"
RULE = ("cases = (a) method-settings lists with exactly one AIP-4235 violation each (unknown method, server/client streaming, nested, "
        "required, int/bytes/message typed, unannotated, other format, duplicate selector, unknown field) which must be rejected "
        "with MethodSettingsError, and (b) accepted settings whose methods are called through sync gRPC, asyncio gRPC and REST with "
        "the request as message/dict/omitted and the id field unset / empty / explicitly empty on an optional field / caller-set; "
        "the server-side records must show a fresh canonical version-4 UUID exactly when AIP-4235 says so and no other field "
        "changed; distinct = distinct (field presence kind, caller state, transport, request form, position body/query) that held")
ASSUMPTIONS = ["UUID randomness is not judged beyond pairwise distinctness and version/variant nibbles"]
CASE_TIMEOUT = 300
PARALLEL = 12
IDS = ["request_id", "opt_request_id", "third_id"]
PRESENCE = {"opt_request_id"}
UUID4 = re.compile(r"^[0-9a-f]{8}-[0-9a-f]{4}-4[0-9a-f]{3}-[89ab][0-9a-f]{3}-[0-9a-f]{12}$")


def floors(tier):
    k = 1 if tier == "quick" else 6
    return {"rejections_checked": (12 if tier == "quick" else 50), "calls_judged": 800 * k, "populated_observed": 500 * k, "caller_value_kept": 300 * k,
            "explicit_empty_optional": 80 * k, "transport:rest": 200 * k, "transport:aio": 250 * k, "unlisted_method_calls": 60 * k, "controls_accepted": 15, "sub_package_rejections": 5}


def plan(seed, tier):
    n = 10 if tier == "quick" else 60
    cases = [{"id": f"uuid-{seed}-{i}", "seed": seed * 100003 + i, "violation": None} for i in range(n)]
    for j in range(1 if tier == "quick" else 5):
        for i, v in enumerate(apigen.AUTOPOP_VIOLATIONS):
            cases.append({"id": f"uuid-bad-{seed}-{j}-{v}", "seed": seed * 100003 + 9000 + 100 * j + i, "violation": v})
    # every service in a proto sub-package: valid settings are applied, invalid ones rejected, all the same
    cases += [{"id": f"uuid-sub-{seed}-{i}", "seed": seed * 100003 + 7000 + i, "violation": None, "subpkg": True} for i in range(2 if tier == "quick" else 8)]
    vs = list(apigen.AUTOPOP_VIOLATIONS)
    random.Random(seed).shuffle(vs)
    for i, v in enumerate(vs[:6] if tier == "quick" else vs):
        cases.append({"id": f"uuid-bad-sub-{seed}-{v}", "seed": seed * 100003 + 7500 + i, "violation": v, "subpkg": True})
    # selective GAPIC generation configured next to the method settings (every RPC listed)
    cases.append({"id": f"uuid-sel-{seed}", "seed": seed * 100003 + 7800, "violation": None, "selective": True})
    for i, v in enumerate(["unknown_method", "leading_dot_selector", "duplicate_selector", "required_field", "server_streaming"]):
        cases.append({"id": f"uuid-bad-sel-{seed}-{v}", "seed": seed * 100003 + 7810 + i, "violation": v, "selective": True})
    return cases


def build_api(case):
    rng = random.Random(case["seed"])
    return apigen.autopop_api(rng, "u%d" % (case["seed"] % 100000), violation=case["violation"], subpkg=bool(case.get("subpkg")), selective=bool(case.get("selective")))


def run_case(case):
    scratch = pipeline.case_scratch("c18")
    api = build_api(case)
    req, g, lib = pipeline.build_and_generate(api, scratch)
    if case["violation"]:
        viol = []
        # control: the same API without the planted entry is accepted — otherwise a rejection says nothing about the planted entry
        rng_c = random.Random(case["seed"])
        ctl = apigen.autopop_api(rng_c, "u%d" % (case["seed"] % 100000), violation=case["violation"], plant=False, subpkg=bool(case.get("subpkg")), selective=bool(case.get("selective")))
        sc2 = os.path.join(scratch, "control")
        os.makedirs(sc2, exist_ok=True)
        _rq, gc_, _lb = pipeline.build_and_generate(ctl, sc2)
        if not gc_.ok:
            return {"verdict": "inconclusive", "why": f"control without the planted entry is rejected too: {gc_.exc_type}: {(gc_.exc_msg or '')[:200]}"}
        if g.ok:
            viol.append({"clause": "invalid-settings-accepted", "detail": {"violation": case["violation"]}, "mech": {"violation": case["violation"]}})
        elif "MethodSettingsError" not in (g.exc_type or ""):
            viol.append({"clause": "rejection-not-methodsettingserror", "detail": g.failure(), "mech": {"violation": case["violation"]}})
        return {"verdict": "violated" if viol else "held", "violations": viol, "evaluations": 1, "counters": {"rejections_checked": 1, "controls_accepted": 1, "sub_package_rejections": int(bool(case.get("subpkg")))},
                "nontrivial_sigs": [] if viol else ["rejected|" + case["violation"]],
                "sample": {"violation": case["violation"], "error": f"{g.exc_type}: {(g.exc_msg or '')[:160]}"}}
    if not g.ok:
        return pipeline.gen_failed_result(g, api)
    model = rdm.Model(req)
    rng = random.Random(case["seed"] ^ 0xC18)
    settings = {s["selector"].rsplit(".", 1)[1]: s.get("auto_populated_fields", []) for s in api.info["method_settings"]}
    calls = []
    for p, s, m in refs.target_methods(req):
        if m.client_streaming or m.server_streaming:
            continue
        fields = settings.get(m.name, [])
        for tr in ("grpc", "aio", "rest"):
            for form in ("message", "dict", "omitted"):
                for state in ("unset", "empty", "caller", "unset", "mixed"):
                    if form == "omitted" and (state != "unset" or tr == "rest"):
                        continue
                    x = model.new(m.input_type)
                    x.name = "things/" + rng.choice(["a", "b"])
                    x.payload = rng.choice(["", "p1"])
                    x.count = rng.choice([0, 3])
                    if form == "omitted":
                        x = model.new(m.input_type)     # the caller passes nothing at all
                    caller = {}
                    for fname in IDS:
                        st = state if state != "mixed" else rng.choice(["unset", "empty", "caller"])
                        if st == "empty":
                            setattr(x, fname, "")
                            caller[fname] = "empty"
                        elif st == "caller":
                            v = rng.choice(["my-id-1", "not a uuid", "00000000-0000-4000-8000-000000000000", " "])
                            setattr(x, fname, v)
                            caller[fname] = "caller"
                        else:
                            caller[fname] = "unset"
                    call = {"service": s.name, "full_service": f"{p.package}.{s.name}", "rpc": m.name, "method": rdm.py_method(m.name),
                            "req_type": m.input_type.lstrip("."), "transport": tr, "form": form, "state": caller,
                            "request": rdm.b64(x.SerializeToString()), "fields": fields}
                    if form == "dict":
                        d = rdm.to_py(x)
                        # explicit empty on the optional field must survive the dict form too
                        for pf in PRESENCE:
                            if caller[pf] == "empty":
                                d[pf] = ""
                        call["dict"] = d
                    calls.append(call)
    script = {"root_pkg": apigen.lib_root(api.info, api.options) + ("." + api.info["sub"] if api.info.get("sub") else ""), "calls": calls}
    ev, rc, err = pipeline.run_runner("checks.c18", script, lib, timeout=250)
    if ev is None or "runner_crash" in ev or "library_import_error" in ev:
        return pipeline.runner_failed_result(ev, rc, err, api)
    viol, counters, sigs = [], {}, set()

    def bump(k, n=1):
        counters[k] = counters.get(k, 0) + n

    seen_uuids = {}
    sample = None
    methods = {m.name: m for _, _, m in refs.target_methods(req)}
    for call, r in zip(calls, ev["results"]):
        bump("calls_judged")
        bump("transport:" + call["transport"])
        mech = {"transport": call["transport"], "form": call["form"], "rpc": call["rpc"]}
        from google.api import client_pb2 as _cpb
        if any(part.strip() == "uuid" for sg in methods[call["rpc"]].options.Extensions[_cpb.method_signature] for part in sg.split(",")):
            mech["signature_names_a_field_called_uuid"] = True

        def bad(clause, detail, **extra):
            viol.append({"clause": clause, "detail": {"rpc": call["rpc"], "transport": call["transport"], "form": call["form"],
                                                      "state": call["state"], "why": detail}, "mech": {**mech, **extra}})

        if r.get("error"):
            bad("client-raised", r["error"], exc_type=r["error"].get("type"))
            continue
        sent = model.parse(call["req_type"], rdm.unb64(call["request"]))
        if call["transport"] == "rest":
            try:
                got = rest_request(model, methods[call["rpc"]], call, r["event"])
            except Exception as ex:  # noqa
                bad("rest-request-unreadable", f"{type(ex).__name__}: {ex}")
                continue
        else:
            got = model.parse(call["req_type"], rdm.unb64(r["event"]["requests"][0]))
        if not call["fields"]:
            bump("unlisted_method_calls")
        for fname in IDS:
            st = call["state"][fname]
            has_presence = fname in PRESENCE
            listed = fname in call["fields"]
            val = getattr(got, fname)
            if has_presence and st == "empty":
                bump("explicit_empty_optional")
            must_populate = listed and (st == "unset" or (st == "empty" and not has_presence))
            if must_populate:
                bump("populated_observed")
                if not UUID4.match(val):
                    bad("not-populated-with-uuid4", f"{fname}={val!r}", field_kind="optional" if has_presence else "plain", caller=st)
                else:
                    if val in seen_uuids:
                        bad("uuid-not-fresh", f"{fname}={val} also sent by {seen_uuids[val]}")
                    seen_uuids[val] = f"{call['rpc']}/{call['transport']}"
                    sigs.add(f"populated|{'optional' if has_presence else 'plain'}|{st}|{call['transport']}|{call['form']}")
            else:
                want = getattr(sent, fname)
                if st == "caller":
                    bump("caller_value_kept")
                if val != want or (has_presence and got.HasField(fname) != sent.HasField(fname) and call["transport"] != "rest"):
                    bad("caller-value-altered" if listed else "unlisted-field-altered",
                        f"{fname}: sent {want!r} (set={sent.HasField(fname) if has_presence else '-'}) arrived {val!r}",
                        field_kind="optional" if has_presence else "plain", caller=st, listed=listed)
                else:
                    sigs.add(f"kept|{'optional' if has_presence else 'plain'}|{st}|{call['transport']}|{call['form']}|{'listed' if listed else 'unlisted'}")
        # nothing else differs
        a, b = model.new(call["req_type"]), model.new(call["req_type"])
        a.CopyFrom(got)
        b.CopyFrom(sent)
        for fname in IDS:
            a.ClearField(fname)
            b.ClearField(fname)
        if a != b:
            bad("other-field-altered", f"got {str(a)[:200]!r} sent {str(b)[:200]!r}")
        if sample is None and call["fields"] and call["state"]["request_id"] == "unset":
            sample = {"rpc": call["rpc"], "transport": call["transport"], "form": call["form"], "listed": call["fields"],
                      "request_id_on_wire": got.request_id, "opt_request_id_on_wire": got.opt_request_id}
    return {"verdict": "violated" if viol else "held", "violations": pipeline.diverse(viol, 40), "evaluations": counters.get("calls_judged", 0),
            "nontrivial_sigs": sorted(sigs), "counters": counters, "sample": sample or {}}


def rest_request(model, m, call, e):
    bindings = refs.http_bindings(m)
    verb, tmpl, body = bindings[0]
    path = urllib.parse.unquote(e["path"])
    pv = refs.match_binding(tmpl, path)
    msg = model.new(call["req_type"])
    raw = rdm.unb64(e["body"])
    if body == "*":
        json_format.Parse(raw.decode("utf-8"), msg)
    elif body:
        sub = getattr(msg, body)
        json_format.Parse(raw.decode("utf-8"), sub)
        if sub.ByteSize():
            sub.SetInParent()
    pairs = [(k, v) for k, v in urllib.parse.parse_qsl(e["query"], keep_blank_values=True) if not k.startswith("$")]
    qm, _ = refs.query_to_message(model, call["req_type"], pairs)
    msg.MergeFrom(qm)
    for var, val in (pv or {}).items():
        refs.set_path(msg, var, val)
    return msg


# ---------------------------------------------------------------------------

def in_runner(script):
    import asyncio
    from vlib import rt
    from vlib.rdm import decode_py
    lib = rt.Lib(script["root_pkg"])
    srv = rt.GrpcServer()
    http = rt.HttpServer()
    results = [None] * len(script["calls"])
    clients = {}

    def arg(call):
        if call["form"] == "omitted":
            return {}
        if call["form"] == "dict":
            return {"request": decode_py(call["dict"])}
        return {"request": lib.mk(call["req_type"], rt.unb64(call["request"]))}

    for i, call in enumerate(script["calls"]):
        tr = call["transport"]
        if tr == "aio":
            continue
        key = (call["service"], tr)
        if key not in clients:
            clients[key] = lib.grpc_client(call["service"], srv.target) if tr == "grpc" else lib.rest_client(call["service"], http.host)
        server = srv if tr == "grpc" else http
        mark = server.mark()
        o = {}
        try:
            getattr(clients[key], call["method"])(**arg(call))
        except BaseException as e:  # noqa
            o["error"] = rt.exc_info(e)
        evs = server.since(mark)
        if evs:
            o["event"] = evs[0]
        elif "error" not in o:
            o["error"] = {"type": "NoEvent", "msg": "nothing reached the server"}
        results[i] = o

    async def amain():
        ac = {}
        for i, call in enumerate(script["calls"]):
            if call["transport"] != "aio":
                continue
            if call["service"] not in ac:
                ac[call["service"]] = lib.aio_client(call["service"], srv.target)
            mark = srv.mark()
            o = {}
            try:
                await getattr(ac[call["service"]], call["method"])(**arg(call))
            except BaseException as e:  # noqa
                o["error"] = rt.exc_info(e)
            evs = srv.since(mark)
            if evs:
                o["event"] = evs[0]
            elif "error" not in o:
                o["error"] = {"type": "NoEvent", "msg": "nothing reached the server"}
            results[i] = o

    asyncio.run(amain())
    srv.stop()
    return {"results": results}
