"""C11 — the emitted file set is well-formed and placed by package-derived naming."""
import ast
import hashlib
import keyword
import posixpath
import random

from vlib import apigen, pipeline

ID = "C11"
LEVEL = "exploration"
RULE = ("cases = seeded small APIs varying namespace depth (0..3), version form, number/kind/name of target files, dependency-only "
        "files, and option strings (transports, name/namespace overrides, metadata, snippets); the response's file names and "
        "feature bits are judged by a layout reference written from the statement; each case is generated a second time with "
        "unknown/repeated option noise appended and the two responses must be byte-identical; in a share of the cases the name "
        "overrides are additionally given twice with different values and the response must equal that of the last values alone; distinct = distinct "
        "(namespace depth, version form, file-name set, file kinds, option set) signatures that held")
ASSUMPTIONS = ["identity pandoc stand-in", "proto packages are lower-case (protobuf style guide)",
               "when a single-valued option (python-gapic-name, warehouse-package-name) is given more than once the last occurrence is in "
               "effect, as in Options.build and as build rules that append overriding options rely on"]
CASE_TIMEOUT = 200
PARALLEL = 14

OPTSETS = [
    [], ["transport=grpc"], ["transport=rest"], ["transport=grpc+rest"], ["transport=grpc+rest", "metadata"],
    ["transport=grpc", "autogen-snippets=false"], ["python-gapic-name=renamed"],
    ["python-gapic-namespace=alt.space", "python-gapic-name=other_name"], ["python-gapic-namespace=solo"],
    ["warehouse-package-name=custom-dist", "transport=rest", "rest-numeric-enums"],
    # bare flags (the spelling build rules use): their value must not depend on what precedes them
    ["autogen-snippets"], ["metadata", "autogen-snippets", "transport=grpc"], ["transport=grpc+rest", "rest-numeric-enums", "autogen-snippets"],
    # namespace overrides of three and four segments in ONE dotted value
    ["python-gapic-namespace=alt.deep.space"], ["python-gapic-namespace=a.b.c.d", "python-gapic-name=deep_name", "transport=grpc+rest"],
]
NOISE = [
    ["foo"], ["foo=bar"], ["go-gapic-package=cloud.google.com/go/x/apiv1;x"], ["python-gapic-unknown-flag=1"],
    ["java_package=com.x", "foo"], ["python-gapic-bogus"], ["=", "x="], ["retry-config-typo=/nonexistent"],
    ["gapic-yaml=a=b"], ["standalone-flag", "other=1", "other=2"],
]


def floors(tier):
    k = 1 if tier == "quick" else 10
    return {"responses_judged": 80 * k, "metamorphic_pairs": 80 * k, "file_names_judged": 3000 * k, "repeated_key_pairs": 25 * k, "yaml_feature_cases": 8 * k, "sub_package_cases": 3 * k, "unversioned_flag_seen_effective": 2 * k}


def plan(seed, tier):
    n = 100 if tier == "quick" else 1200
    cases = [{"id": f"lay-{seed}-{i}", "seed": seed * 100003 + i, "optset": i % len(OPTSETS), "noise": (i // 3) % len(NOISE)}
             for i in range(n)]
    # every 7th case carries a service YAML with python experimental features
    for i, c in enumerate(cases):
        if i % 7 == 3:
            c["yaml"] = ["unversioned_disabled", "unversioned_enabled", "unversioned_disabled", "other_features"][(i // 7) % 4]
    cases += [{"id": f"lay-sub-{seed}-{i}", "seed": seed * 100003 + 7000 + i, "optset": 0, "noise": i % len(NOISE), "subpkg": True}
              for i in range(4 if tier == "quick" else 30)]
    return cases


def build_api(case):
    rng = random.Random(case["seed"])
    if case.get("subpkg"):
        # sibling proto sub-packages (one a character prefix of another), each with types and a service
        api = apigen.prefix_packages_api(rng, "l%d" % (case["seed"] % 100000), layout="prefix3", services=True)
        api.options = ["transport=grpc+rest", "autogen-snippets=false"] + (["metadata"] if case["seed"] % 2 else [])
        api.tags.add("sibling-sub-packages")
        return api
    api = apigen.layout_api(rng, "l%d" % (case["seed"] % 100000))
    api.options = list(OPTSETS[case["optset"]])
    if case.get("yaml"):
        # a service YAML whose publishing section switches Python experimental features for this package: the versioned package
        # must be laid out as always (only the unversioned alias package may go away)
        feats = {"unversioned_disabled": {"unversioned_package_disabled": True},
                 "unversioned_enabled": {"unversioned_package_disabled": False},
                 # (rest_async_io_enabled is not among them: it legitimately adds transport files)
                 "other_features": {"protobuf_pythonic_types_enabled": True}}[case["yaml"]]
        pub = {"library_settings": [{"version": api.info["pkg"], "python_settings": {"experimental_features": feats}}]}
        api.aux["service-yaml"] = ("svc.yaml", apigen.service_yaml(api, publishing=pub))
        api.tags.add("yaml:" + case["yaml"])
    return api


def expected(req, api, opts):
    ns, name, ver = list(api.info["ns"]), api.info["name"], api.info["version"]
    for o in opts:
        if o.startswith("python-gapic-namespace="):
            ns = o.split("=", 1)[1].split(".")
        if o.startswith("python-gapic-name="):
            name = o.split("=", 1)[1]
    mod = name.lower()
    root = "/".join([s.lower() for s in ns] + [mod + ("_" + ver if ver else "")])
    alias = "/".join([s.lower() for s in ns] + [mod])
    tr = ["grpc"]
    for o in opts:
        if o.startswith("transport="):
            tr = o.split("=", 1)[1].split("+")
    tfiles = [p for p in req.proto_file if p.name in req.file_to_generate]
    return root, alias, tr, tfiles


def judge_response(req, api, opts, res):
    viol = []

    def bad(clause, detail, **mech):
        viol.append({"clause": clause, "detail": detail, "mech": mech})

    names = [f.name for f in res.file]
    content = {f.name: f.content for f in res.file}
    root, alias, tr, tfiles = expected(req, api, opts)
    nns = root.count("/")
    if len(set(names)) != len(names):
        bad("duplicate-names", sorted(n for n in set(names) if names.count(n) > 1)[:5])
    for n in names:
        segs = n.split("/")
        if n.startswith("/") or "\\" in n or any(s in ("", ".", "..") for s in segs) or posixpath.normpath(n) != n:
            bad("name-not-normalised", n)
    if not (res.supported_features & 1):
        bad("proto3-optional-not-advertised", res.supported_features)
    py = [n for n in names if n.endswith(".py")]
    lib_py = []
    for n in py:
        top = n.split("/")[0]
        if "/" not in n or top in ("tests", "samples", "scripts", "docs", "testing"):
            continue
        lib_py.append(n)
        if not (n.startswith(root + "/") or (alias != root and n.startswith(alias + "/"))):
            bad("source-outside-package-root", {"file": n, "root": root}, ns_depth=nns)
    # __init__.py on every import path below the root (and below tests/)
    nameset = set(names)
    for n in lib_py + [x for x in py if x.startswith("tests/")]:
        base = root if n.startswith(root + "/") else (alias if n.startswith(alias + "/") else "tests")
        d = posixpath.dirname(n)
        while d and (d == base or d.startswith(base + "/")):
            if d + "/__init__.py" not in nameset:
                bad("missing-init", {"dir": d, "for": n})
                break
            d = posixpath.dirname(d)
    # types modules <-> target files with types (bijection by top-level class names)
    # types modules anywhere below the root (sub-packages have their own types/ directory)
    # (the directory that holds the module is named `types`; a SUB-PACKAGE may itself be called `types`)
    tmods = [n for n in names if n.startswith(root + "/") and posixpath.basename(posixpath.dirname(n)) == "types" and n.endswith(".py")
             and not n.endswith("__init__.py")]
    base_pkg = api.info["pkg"]
    for p in tfiles:
        # placement: <root>/<proto sub-package>/types/<file base name>.py
        sub = p.package[len(base_pkg):].strip(".").replace(".", "/")
        want_path = root + "/" + (sub + "/" if sub else "") + "types/" + posixpath.basename(p.name)[:-6] + ".py"
        if (p.message_type or p.enum_type) and sub and want_path not in names:
            bad("types-module-misplaced", {"file": p.name, "expected": want_path, "modules": sorted(tmods)[:8]}, subpackage=True)
    want = {}
    for p in tfiles:
        want[p.name] = {m.name for m in p.message_type} | {e.name for e in p.enum_type}
    seen = {}
    unparsable = False
    for n in tmods:
        base = posixpath.basename(n)[:-3]
        if not base.isidentifier() or keyword.iskeyword(base):
            bad("types-module-not-importable-name", n, hyphen="-" in base)
        try:
            tree = ast.parse(content[n])
        except SyntaxError as e:
            bad("types-module-syntax", f"{n}: {e}", hyphen_import=any("-" in posixpath.basename(x) for x in tmods))
            unparsable = True
            continue
        seen[n] = {x.name for x in tree.body if isinstance(x, ast.ClassDef)}
    if not unparsable:
        # one module per target file: multiset equality of top-level class sets
        a = sorted(sorted(v) for v in want.values())
        b = sorted(sorted(v) for v in seen.values())
        if a != b:
            bad("types-module-count", {"per_file_types": a, "per_module_classes": b, "modules": sorted(seen)})
    # services
    svcs = [(p, s.name) for p in tfiles for s in p.service]
    clients = [n for n in names if n.startswith(root + "/") and n.endswith("/client.py")
               and posixpath.basename(posixpath.dirname(posixpath.dirname(n))) == "services"]
    found = {}
    for n in clients:
        try:
            tree = ast.parse(content[n])
            cls = {x.name for x in tree.body if isinstance(x, ast.ClassDef)}
        except SyntaxError as e:
            bad("client-module-syntax", f"{n}: {e}", hyphen_import=any("-" in posixpath.basename(x) for x in tmods))
            unparsable = True
            cls = set()
        for p, s in svcs:
            if s + "Client" in cls:
                found.setdefault(s, []).append(n)
    for p, s in svcs:
        if len(found.get(s, [])) != 1 and not unparsable:
            bad("service-package-count", {"service": s, "client_modules": found.get(s, [])})
    if len(clients) != len(svcs):
        bad("service-package-count", {"clients": clients, "services": [s for _, s in svcs]})
    for s, mods in found.items():
        d = posixpath.dirname(mods[0]) + "/transports/"
        tfiles_seen = sorted(posixpath.basename(n) for n in names if n.startswith(d))
        exp = {"__init__.py", "base.py", "README.rst"}
        if "grpc" in tr:
            exp |= {"grpc.py", "grpc_asyncio.py"}
        if "rest" in tr:
            exp |= {"rest.py", "rest_base.py"}
        if set(tfiles_seen) != exp:
            bad("transport-files", {"service": s, "seen": tfiles_seen, "expected": sorted(exp)})
    # nothing derived from dependency-only files
    for p in req.proto_file:
        if p.name not in req.file_to_generate and p.package.startswith("vpdep"):
            dd = p.package.replace(".", "/")
            if any(n.startswith(dd.split("/")[0] + "/") for n in names):
                bad("dependency-file-emitted", {"dep": p.name})
    for n in names:
        b = posixpath.basename(n)
        if b.startswith("_") and b != "__init__.py":
            bad("private-template-emitted", n)
        if n.endswith(".py") and b != "__init__.py":
            try:
                if not ast.parse(content[n]).body:
                    bad("empty-module-emitted", n)
            except SyntaxError:
                pass
    return viol, len(names)


def run_case(case):
    scratch = pipeline.case_scratch("c11")
    api = build_api(case)
    req = api.request(scratch)
    g = pipeline.generate(req)
    tags = sorted(api.tags)
    sig = {"tags": tags, "opts": api.options}
    counters = {}
    if not g.ok:
        return {"verdict": "violated", "evaluations": 1, "counters": {"generation_failed": 1},
                "violations": [{"clause": "generation-fails", "detail": g.failure(),
                                "mech": {"exc_type": g.exc_type, "ns_depth": len(api.info["ns"])}}],
                "sample": {"tags": tags, "opts": api.options}}
    viol, nnames = judge_response(req, api, api.options, g.response)
    counters["responses_judged"] = 1
    if case.get("yaml"):
        counters["yaml_feature_cases"] = 1
        if case["yaml"] == "unversioned_disabled":
            # did the setting reach the generator at all?  (its documented effect: no unversioned alias package)
            root_, alias_, _tr, _tf = expected(req, api, api.options)
            if alias_ != root_:
                counters["unversioned_flag_seen_effective"] = int(not any(f.name.startswith(alias_ + "/") for f in g.response.file))
    if case.get("subpkg"):
        counters["sub_package_cases"] = 1
    counters["file_names_judged"] = nnames
    # metamorphic: unknown / repeated options are ignored
    noise = NOISE[case["noise"]]
    rng = random.Random(case["seed"] + 7)
    opts2 = list(api.options)
    single = [o for o in opts2 if not o.startswith("python-gapic-namespace")]   # namespace is list-valued by design
    if single and rng.random() < 0.5:
        opts2 = opts2 + [rng.choice(single)]         # repeated single-valued known key, same value
    pos = rng.randint(0, len(opts2))
    opts2 = opts2[:pos] + noise + opts2[pos:]
    req2 = api.request(scratch)
    base = [o for o in req2.parameter.split(",") if o]
    # keep aux-file options of the original request
    auxo = [o for o in base if o not in api.options]
    req2.parameter = ",".join(opts2 + auxo)
    g2 = pipeline.generate(req2)
    counters["metamorphic_pairs"] = 1
    has_eq = any(o.count("=") > 1 for o in noise)
    if not g2.ok:
        viol.append({"clause": "unknown-option-breaks-generation", "detail": {"options": req2.parameter, **g2.failure()},
                     "mech": {"exc_type": g2.exc_type, "value_contains_equals": has_eq}})
    elif hashlib.sha256(g2.raw).hexdigest() != hashlib.sha256(g.raw).hexdigest():
        a = {f.name: f.content for f in g.response.file}
        b = {f.name: f.content for f in g2.response.file}
        diff = [n for n in sorted(set(a) | set(b)) if a.get(n) != b.get(n)][:5]
        viol.append({"clause": "unknown-option-changes-output", "detail": {"options": req2.parameter, "files": diff}, "mech": {}})
    # metamorphic: a single-valued key given twice with different values — the last occurrence is the one in effect
    if rng.random() < 0.4 or any(o.startswith("python-gapic-name=") for o in api.options):
        shadow = ["python-gapic-name=shadowed_name", "warehouse-package-name=shadowed-pkg"]
        if any(o.startswith("python-gapic-name=") for o in api.options) and any(o.startswith("warehouse-package-name=") for o in api.options):
            ref_raw, ref_opts = g.raw, list(api.options)
        else:
            ref_opts = list(api.options)
            if not any(o.startswith("python-gapic-name=") for o in ref_opts):
                ref_opts.append("python-gapic-name=final_name")
            if not any(o.startswith("warehouse-package-name=") for o in ref_opts):
                ref_opts.append("warehouse-package-name=final-pkg")
            req3 = api.request(scratch)
            req3.parameter = ",".join(ref_opts + auxo)
            g3 = pipeline.generate(req3)
            ref_raw = g3.raw if g3.ok else None
        if ref_raw is not None:
            req4 = api.request(scratch)
            req4.parameter = ",".join(shadow + ref_opts + auxo)
            g4 = pipeline.generate(req4)
            counters["repeated_key_pairs"] = 1
            if not g4.ok:
                viol.append({"clause": "repeated-option-breaks-generation", "detail": {"options": req4.parameter, **g4.failure()}, "mech": {}})
            elif g4.raw != ref_raw:
                names4 = sorted({f.name.split("/")[1] if f.name.count("/") > 1 else f.name for f in g4.response.file})[:6]
                viol.append({"clause": "earlier-value-of-repeated-option-in-effect",
                             "detail": {"options": req4.parameter, "second_level_names": names4}, "mech": {}})
    return {"verdict": "violated" if viol else "held", "violations": pipeline.diverse(viol, 40), "evaluations": 2,
            "nontrivial_sigs": [] if viol else [sig], "counters": counters,
            "sample": {"tags": tags, "opts": api.options, "noise": noise, "files": nnames,
                       "names": [f.name for f in g.response.file if f.name.endswith(".py")][:8]}}
