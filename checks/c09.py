"""C09 — default retry and timeout of each method equal its gRPC service-config entry."""
import random

from vlib import apigen, pipeline, rdm, refs
from vlib.apigen import GRPC_CODES

ID = "C09"
LEVEL = "fault_enumeration"
RULE = ("cases = seeded gRPC service configs (several entries, entries naming several methods, timeout with/without retryPolicy, "
        "retryPolicy without timeout, fractional and nanosecond durations, a later duplicate entry, the same method name in two "
        "services, entries naming unknown methods); for every method every canonical status code is injected once (enumerated), plus "
        "random fault sequences up to length 6, an endless retryable sequence, for retry-only entries a run of retryable failures whose "
        "backoffs exceed 200 virtual seconds (no overall deadline may appear), and explicit retry=/timeout= overrides, through sync "
        "and asyncio clients, and over REST HTTP 503 / 500 replies with JSON, plain-text, HTML and empty bodies; the judge compares attempts, per-attempt deadlines, the sleeps requested through a virtual clock "
        "(jitter pinned to its upper bound) and the outcome with a reference computed from the entry; distinct = distinct (entry "
        "kind, fault sequence shape, client kind, override) that held")
ASSUMPTIONS = ["google.api_core.retry's clock and random are replaced by a virtual clock / upper-bound jitter",
               "over REST the deadline is judged on clean calls (the timeout handed to the HTTP session) and the retry decision on HTTP 503 / 500 replies only (whose api-core exception classes are the ones the predicates name), with JSON, plain-text, HTML and empty bodies; other HTTP statuses map to classes the gRPC-code predicates do not name and are not judged", "maxAttempts is not part of the statement",
               "request-streaming methods are judged through the sync client only (asyncio: one attempt whatever the default; the stream call objects of grpc.aio surface errors outside AsyncRetry)"]
CASE_TIMEOUT = 600
PARALLEL = 12


def floors(tier):
    k = 1 if tier == "quick" else 7
    return {"calls_judged": 3000 * k, "single_code_injections": 2000 * k, "retried_calls": 300 * k, "sleeps_compared": 600 * k,
            "deadlines_compared": 2500 * k, "retry_error_by_deadline": 20 * k, "unnamed_method_calls": 800 * k, "override_calls": 200 * k,
            "client:aio": 1200 * k, "retry_only_entry_failing_for_minutes": 4 * k, "second_page_fault_calls": 40 * k, "rest_calls_judged": 150 * k, "rest_fault_calls_judged": 200 * k, "rest_fault_body:text": 40 * k, "rest_fault_body:empty": 40 * k, "rest_deadlines_compared": 40 * k, "sub_package_cases": 2 if tier == "quick" else 8, "request_streaming_calls": 300 * k}


def plan(seed, tier):
    n = 10 if tier == "quick" else 70
    cases = [{"id": f"retry-{seed}-{i}", "seed": seed * 100003 + i} for i in range(n)]
    # services in a proto sub-package: the config names them by their full proto name
    cases += [{"id": f"retry-sub-{seed}-{i}", "seed": seed * 100003 + 4000 + i, "subpkg": True} for i in range(2 if tier == "quick" else 10)]
    return cases


def build_api(case):
    rng = random.Random(case["seed"])
    return apigen.retry_api(rng, "y%d" % (case["seed"] % 100000), subpkg=bool(case.get("subpkg")))


def dur(s):
    assert s.endswith("s")
    return float(s[:-1])


def entry_for(cfg, service, method):
    """First methodConfig entry whose name list contains exactly this service+method."""
    for e in cfg:
        for n in e.get("name", []):
            if n.get("service") == service and n.get("method") == method:
                return e
    return None


def reference(entry, seq, override, eps=0.0):
    """(attempts, outcome, sleeps, deadline per attempt) for fault sequence `seq` (list of codes; 'OK' ends; 'LOOP:<code>' = endless)."""
    retry = None
    T = None
    if entry:
        if entry.get("timeout"):
            T = dur(entry["timeout"])
        if "retryPolicy" in entry:
            r = entry["retryPolicy"]
            retry = {"codes": set(r["retryableStatusCodes"]), "initial": dur(r["initialBackoff"]), "max": dur(r["maxBackoff"]),
                     "mult": float(r["backoffMultiplier"])}
    per_attempt = T
    overall = T if retry else None
    if override.get("timeout") is not None:
        per_attempt = override["timeout"]
    if override.get("retry") == "none":
        retry = None
    elif override.get("retry") == "custom":
        retry = {"codes": {override["code"]}, "initial": 0.25, "max": 4.0, "mult": 2.0}
        overall = 100.0
    sleeps, elapsed, attempts = [], 0.0, 0
    delay = min(retry["initial"], retry["max"]) if retry else None
    i = 0
    while True:
        c = seq[i] if i < len(seq) else "OK"
        loop = None
        if isinstance(c, str) and c.startswith("LOOP:"):
            loop = c[5:]
            c = loop
        attempts += 1
        if c == "OK":
            return attempts, {"ok": True}, sleeps, per_attempt
        if not retry or c not in retry["codes"]:
            return attempts, {"code": c}, sleeps, per_attempt
        if overall is not None and elapsed + delay > overall + eps:
            return attempts, {"retry_error": True}, sleeps, per_attempt
        sleeps.append(delay)
        elapsed += delay
        delay = min(delay * retry["mult"], retry["max"])
        if loop is None:
            i += 1
        if attempts > 2000:
            return attempts, {"retry_error": True}, sleeps, per_attempt


def run_case(case):
    scratch = pipeline.case_scratch("c09")
    api = build_api(case)
    req, g, lib = pipeline.build_and_generate(api, scratch)
    if not g.ok:
        return pipeline.gen_failed_result(g, api)
    model = rdm.Model(req)
    rng = random.Random(case["seed"] ^ 0xC09)
    cfg = api.info["retry_cfg"]
    calls = []
    for p, s, m in refs.target_methods(req):
        fs = f"{p.package}.{s.name}"
        entry = entry_for(cfg, fs, m.name)
        R = set(entry["retryPolicy"]["retryableStatusCodes"]) if entry and "retryPolicy" in entry else set()
        has_T = bool(entry and entry.get("timeout"))
        seqs = [([c], "single") for c in GRPC_CODES]
        for _ in range(4):
            k = rng.randint(1, 6)
            pool = sorted(R) * 3 + GRPC_CODES if R else GRPC_CODES
            seqs.append(([rng.choice(pool) for _ in range(k)], "random"))
        if R:
            seqs.append((sorted(R) * 2, "all-retryable"))
            if has_T:
                lp = ["LOOP:" + rng.choice(sorted(R))]
                # hundreds of attempts would let real time leak into the per-attempt deadlines: keep endless runs short
                if reference(entry, lp, {})[0] <= 40:
                    seqs.append((lp, "endless"))
                else:
                    seqs.append((sorted(R) * 4, "long-retryable"))
            else:
                # no timeout in the entry: no overall deadline either, however long the failures last. Find a run of
                # retryable failures whose backoffs add up to well over two minutes of virtual time
                code = rng.choice(sorted(R))
                for k in range(3, 41):
                    if sum(reference(entry, [code] * k, {})[2]) > 200.0:
                        seqs.append(([code] * k, "minutes-of-retryable-failures"))
                        break
        seqs.append(([], "clean"))
        # (a request-streaming call through the asyncio client is made once whatever the default says — observed on the unchanged tree
        # with api-core 2.24, where the awaited stream-unary call object is not re-created by AsyncRetry; not judged, see ASSUMPTIONS)
        kinds_ = ("grpc",) if refs.arity(m) in ("stream_unary", "stream_stream") else ("grpc", "aio")
        for seq, shape in seqs:
            for client in kinds_:
                calls.append({"service": s.name, "full_service": fs, "rpc": m.name, "method": rdm.py_method(m.name), "client": client,
                              "seq": seq, "shape": shape, "override": {}, "req_type": m.input_type.lstrip("."), "arity": refs.arity(m)})
        # explicit overrides win
        c0 = rng.choice(sorted(R)) if R else "UNAVAILABLE"
        for ov in ({"timeout": rng.choice([300.0, 150.0])}, {"retry": "none"}, {"retry": "custom", "code": "NOT_FOUND"},
                   {"retry": "custom", "code": "NOT_FOUND", "timeout": 222.0}):
            seq = {"none": [c0], "custom": ["NOT_FOUND", "NOT_FOUND", c0 if c0 != "NOT_FOUND" else "INTERNAL"]}.get(ov.get("retry"), [c0])
            for client in kinds_:
                calls.append({"service": s.name, "full_service": fs, "rpc": m.name, "method": rdm.py_method(m.name), "client": client,
                              "seq": seq, "shape": "override", "override": ov, "req_type": m.input_type.lstrip("."), "arity": refs.arity(m)})
        # REST: the deadline of a call is the `timeout` the stub hands to the HTTP session (default from the entry, or the override)
        rq = model.new(m.input_type)
        if m.name == "List":
            rq.parent = "shelves/s1"
        else:
            rq.name = ("alpha/" if s.name == "Alpha" else "beta/") + rng.choice(["a1", "b2"])
        for ov in (({}, {"timeout": rng.choice([37.5, 0.75, 410.0])}) if not m.client_streaming else ()):
            calls.append({"service": s.name, "full_service": fs, "rpc": m.name, "method": rdm.py_method(m.name), "client": "rest",
                          "seq": [], "shape": "rest-" + api.info["http_shape"].get(f"{s.name}.{m.name}", "?"), "override": ov,
                          "req_type": m.input_type.lstrip("."), "request": rdm.b64(rq.SerializeToString())})
        # REST faults: the stub must turn an HTTP error reply into the API exception of its status, whatever the body looks like
        # (Google's JSON error, a proxy's plain text / HTML, nothing at all): that exception is what the default retry decides on
        if not m.client_streaming and m.name != "List":
            bodies = ["json", "text", "empty", "html"]
            for codes in (["UNAVAILABLE", "UNAVAILABLE"], ["INTERNAL"], ["UNAVAILABLE", "INTERNAL"]):
                calls.append({"service": s.name, "full_service": fs, "rpc": m.name, "method": rdm.py_method(m.name), "client": "rest",
                              "seq": codes, "rest_fault": [[{"UNAVAILABLE": 503, "INTERNAL": 500}[c], rng.choice(bodies)] for c in codes],
                              "shape": "rest-fault", "override": {}, "req_type": m.input_type.lstrip("."), "request": rdm.b64(rq.SerializeToString())})
        if m.name == "List" and R:
            # the second page of a listing fails: default retry, explicit retry=None and a custom retry each decide that fetch
            p1 = model.new(m.output_type)
            p1.items.extend(["a", "b"])
            p1.next_page_token = "t1"
            p2 = model.new(m.output_type)
            p2.items.append("c")
            cr = rng.choice(sorted(R))
            for ov, seq in (({}, [cr]), ({"retry": "none"}, [cr]), ({"retry": "custom", "code": "NOT_FOUND"}, ["NOT_FOUND", "NOT_FOUND"]),
                            ({"retry": "custom", "code": "NOT_FOUND"}, [cr])):
                for client in ("grpc", "aio"):
                    calls.append({"service": s.name, "full_service": fs, "rpc": m.name, "method": rdm.py_method(m.name), "client": client,
                                  "seq": seq, "shape": "fault-on-second-page", "override": ov, "req_type": m.input_type.lstrip("."),
                                  "paged": {"page1": rdm.b64(p1.SerializeToString()), "page2": rdm.b64(p2.SerializeToString())}})
    script = {"root_pkg": apigen.lib_root(api.info, api.options) + ("." + api.info["sub"] if api.info.get("sub") else ""), "calls": calls}
    ev, rc, err = pipeline.run_runner("checks.c09", script, lib, timeout=500)
    if ev is None or "runner_crash" in ev or "library_import_error" in ev:
        return pipeline.runner_failed_result(ev, rc, err, api)
    viol, counters, sigs = [], {}, set()

    def bump(k, n=1):
        counters[k] = counters.get(k, 0) + n

    sample = None
    if case.get("subpkg"):
        bump("sub_package_cases")
    for call, r in zip(calls, ev["results"]):
        entry = entry_for(cfg, call["full_service"], call["rpc"])
        kind = "unnamed" if not entry else ("+".join(k for k in ("timeout", "retryPolicy") if k in entry))
        att, outcome, sleeps, per_attempt = reference(entry, call["seq"], call["override"])
        # float rounding at the exact deadline boundary: if a 1 microsecond shift of the deadline changes the
        # reference, both readings are accepted
        alts = [reference(entry, call["seq"], call["override"], eps=e) for e in (-1e-6, 1e-6)]
        for a in alts:
            if a[0] != att and r.get("attempts") == a[0]:
                att, outcome, sleeps, per_attempt = a
        bump("calls_judged")
        bump("client:" + call["client"])
        if call["shape"] == "minutes-of-retryable-failures":
            bump("retry_only_entry_failing_for_minutes")
        if call.get("paged"):
            bump("second_page_fault_calls")
        if call["shape"] == "single":
            bump("single_code_injections")
        if call.get("arity") in ("stream_unary", "stream_stream"):
            bump("request_streaming_calls")
        if not entry:
            bump("unnamed_method_calls")
        if call["override"]:
            bump("override_calls")
        if sleeps:
            bump("retried_calls")
        mech = {"entry": kind, "shape": call["shape"], "client": call["client"], "override": sorted(call["override"])}
        v = []

        def bad(clause, detail):
            v.append({"clause": clause, "detail": {"rpc": f"{call['full_service']}.{call['rpc']}", "client": call["client"], "entry": kind,
                                                    "seq": call["seq"], "override": call["override"], "why": detail}, "mech": mech})

        if r.get("harness_error"):
            bad("client-raised-unexpectedly", r["harness_error"])
        elif call["client"] == "rest" and call.get("rest_fault"):
            bump("rest_fault_calls_judged")
            for _, bk in call["rest_fault"]:
                bump("rest_fault_body:" + bk)
            mech["bodies"] = sorted({bk for _, bk in call["rest_fault"]} - {"json"})
            n = len(r["session_timeouts"])
            got = r["outcome"]
            if n != att:
                bad("attempt-count", f"{n} HTTP requests, reference {att}; fault replies {call['rest_fault']}; outcome {got}")
            elif outcome.get("ok"):
                if not got.get("ok"):
                    bad("outcome", f"expected the reply, got {got}")
            elif outcome.get("retry_error"):
                if got.get("type") != "RetryError":
                    bad("outcome", f"expected RetryError once the overall deadline is exhausted, got {got}")
            elif got.get("code") != outcome["code"]:
                bad("outcome", f"expected the exception of {outcome['code']}, got {got}; fault replies {call['rest_fault']}")
        elif call["client"] == "rest":
            bump("rest_calls_judged")
            if not r["outcome"].get("ok") or len(r["session_timeouts"]) != 1:
                bad("rest-outcome", f"outcome {r['outcome']}, {len(r['session_timeouts'])} HTTP requests")
            else:
                t = r["session_timeouts"][0]
                if t == "absent":
                    bad("rest-call-without-timeout", "the stub did not hand a timeout to the HTTP session (the session's own default applies)")
                elif per_attempt is None:
                    if t is not None:
                        bad("rest-deadline", f"timeout {t} on a call without default timeout")
                elif t is None or not (per_attempt - 3.0 - r.get("stall_s", 0.0) <= t <= per_attempt + 1e-6):
                    bad("rest-deadline", f"timeout {t} handed to the session, reference {per_attempt}")
                else:
                    bump("rest_deadlines_compared")
        else:
            if r["attempts"] != att:
                bad("attempt-count", f"{r['attempts']} attempts, reference {att}")
            got = r["outcome"]
            if outcome.get("ok"):
                if not got.get("ok"):
                    bad("outcome", f"expected the reply, got {got}")
            elif outcome.get("retry_error"):
                bump("retry_error_by_deadline")
                if got.get("type") != "RetryError":
                    bad("outcome", f"expected RetryError once the overall deadline is exhausted, got {got}")
            else:
                if got.get("code") != outcome["code"]:
                    bad("outcome", f"expected the exception of {outcome['code']}, got {got}")
            bump("sleeps_compared", len(sleeps))
            if len(r["sleeps"]) != len(sleeps) or any(abs(a - b) > 1e-6 for a, b in zip(r["sleeps"], sleeps)):
                bad("backoff", f"sleeps {r['sleeps']}, reference {sleeps}")
            for i, tr in enumerate(r["time_remaining"]):
                bump("deadlines_compared")
                if per_attempt is None:
                    if tr is not None:
                        bad("deadline", f"attempt {i}: deadline {tr:.1f}s on a call without default timeout")
                        break
                elif tr is None or not (per_attempt - 3.0 - (r.get("stall") or [0.0] * (i + 1))[i] <= tr <= per_attempt + 1.5):
                    bad("deadline", f"attempt {i}: time_remaining {tr}, reference {per_attempt}")
                    break
        viol.extend(v)
        if not v:
            sigs.add(f"{kind}|{call['shape']}|len{min(len(call['seq']), 3)}|{call['client']}|{sorted(call['override'])}")
            if sample is None and len(sleeps) >= 2:
                sample = {"rpc": call["rpc"], "entry": entry, "fault_sequence": call["seq"], "attempts": r["attempts"],
                          "virtual_sleeps": r["sleeps"], "time_remaining": [round(x, 1) if x else x for x in r["time_remaining"]],
                          "outcome": r["outcome"]}
    return {"verdict": "violated" if viol else "held", "violations": pipeline.diverse(viol, 40), "evaluations": counters.get("calls_judged", 0),
            "nontrivial_sigs": sorted(sigs), "counters": counters, "sample": sample or {}}


# ---------------------------------------------------------------------------

def in_runner(script):
    import asyncio
    from vlib import rt
    vt, vr = rt.install_virtual_time()
    lib = rt.Lib(script["root_pkg"])
    srv = rt.GrpcServer()
    results = [None] * len(script["calls"])
    reply = {"payloads": [""]}

    def setup(call):
        path = "/%s/%s" % (call["full_service"], call["rpc"])
        seq = call["seq"]
        if call.get("paged"):
            srv.script(path, [{"payloads": [call["paged"]["page1"]]}] + [{"code": c} for c in seq] + [{"payloads": [call["paged"]["page2"]]}], sticky=reply)
        elif seq and isinstance(seq[0], str) and seq[0].startswith("LOOP:"):
            srv.script(path, [], sticky={"code": seq[0][5:]})
        else:
            srv.script(path, [{"code": c} for c in seq] + [reply], sticky=reply)
        return path

    def kwargs_of(call):
        from google.api_core import retry as retries, retry_async as retries_async, exceptions
        kw = {}
        ov = call["override"]
        if ov.get("timeout") is not None:
            kw["timeout"] = ov["timeout"]
        if ov.get("retry") == "none":
            kw["retry"] = None
        elif ov.get("retry") == "custom":
            cls = retries.Retry if call["client"] == "grpc" else retries_async.AsyncRetry
            kw["retry"] = cls(predicate=retries.if_exception_type(exceptions.NotFound), initial=0.25, maximum=4.0, multiplier=2.0, timeout=100.0)
        return kw

    def finish(call, mark, s0, o):
        evs = srv.since(mark)
        if call.get("paged"):
            evs = evs[1:]           # the fetch of the first page is not what is judged
        o["attempts"] = len(evs)
        o["time_remaining"] = [e["time_remaining"] for e in evs]
        # real seconds between the start of the call and the server seeing each attempt (virtual sleeps take none): on a loaded
        # machine this is what legitimately eats into the observed deadline
        o["stall"] = [max(0.0, e["t"] - call.get("_t0", e["t"])) for e in evs]
        o["sleeps"] = list(vt.sleeps[s0:])
        return o

    def outcome_of(e):
        info = rt.exc_info(e)
        return {"type": info["type"], "code": info["code"], "msg": info["msg"][:120]}

    # REST: record the timeout argument of every request of the authorised session (absent is not the same as None)
    if any(c["client"] == "rest" for c in script["calls"]):
        import time as _time
        import google.auth.transport.requests as gatr
        http = rt.HttpServer()
        seen = []
        orig = gatr.AuthorizedSession.request

        def recording_request(self, method, url, *a, **kw):
            seen.append(kw["timeout"] if "timeout" in kw else "absent")
            return orig(self, method, url, *a, **kw)

        gatr.AuthorizedSession.request = recording_request
        rcl = {}
        for i, call in enumerate(script["calls"]):
            if call["client"] != "rest":
                continue
            svc = call["service"]
            if svc not in rcl:
                rcl[svc] = lib.rest_client(svc, http.host)
            del seen[:]
            o = {}
            fb = {"json": ('{"error": {"code": %d, "message": "injected", "status": "INJECTED"}}', "application/json"),
                  "text": ("upstream connect error or disconnect/reset before headers", "text/plain"),
                  "empty": ("", "text/plain"), "html": ("<html><body><h1>%d</h1></body></html>", "text/html")}
            http.script([{"status": st, "body": (fb[bk][0] % st) if "%d" in fb[bk][0] else fb[bk][0], "ctype": fb[bk][1]}
                         for st, bk in call.get("rest_fault") or []])
            t0 = _time.monotonic()
            try:
                ret = getattr(rcl[svc], call["method"])(request=lib.mk(call["req_type"], rt.unb64(call["request"])), **kwargs_of(call))
                if call["rpc"] == "List":
                    list(ret)
                o["outcome"] = {"ok": True}
            except Exception as e:  # noqa
                o["outcome"] = outcome_of(e)
            o["session_timeouts"] = [x if (x is None or isinstance(x, (int, float, str))) else repr(x) for x in seen]
            o["stall_s"] = _time.monotonic() - t0
            http.script([])
            results[i] = o
        gatr.AuthorizedSession.request = orig

    clients = {}
    for i, call in enumerate(script["calls"]):
        if call["client"] != "grpc":
            continue
        svc = call["service"]
        if svc not in clients:
            clients[svc] = lib.grpc_client(svc, srv.target)
        setup(call)
        mark, s0 = srv.mark(), len(vt.sleeps)
        call["_t0"] = __import__("time").monotonic()
        o = {}
        try:
            if call.get("arity") in ("stream_unary", "stream_stream"):
                ret = getattr(clients[svc], call["method"])(requests=iter([lib.mk(call["req_type"], b"")]), **kwargs_of(call))
                if call["arity"] == "stream_stream":
                    list(ret)
            else:
                ret = getattr(clients[svc], call["method"])(request=lib.mk(call["req_type"], b""), **kwargs_of(call))
            if call.get("paged"):
                o["items"] = list(ret)
            o["outcome"] = {"ok": True}
        except Exception as e:  # noqa
            o["outcome"] = outcome_of(e)
        results[i] = finish(call, mark, s0, o)

    async def amain():
        ac = {}
        for i, call in enumerate(script["calls"]):
            if call["client"] != "aio":
                continue
            svc = call["service"]
            if svc not in ac:
                ac[svc] = lib.aio_client(svc, srv.target)
            setup(call)
            mark, s0 = srv.mark(), len(vt.sleeps)
            call["_t0"] = __import__("time").monotonic()
            o = {}
            try:
                if call.get("arity") in ("stream_unary", "stream_stream"):
                    class Requests:             # re-iterable: every attempt of a retried call reads the requests afresh
                        def __init__(self, item):
                            self.item = item

                        def __aiter__(self):
                            async def gen(item=self.item):
                                yield item
                            return gen()
                    ret = getattr(ac[svc], call["method"])(requests=Requests(lib.mk(call["req_type"], b"")), **kwargs_of(call))
                    ret, _n = await rt.drain_awaitable(ret)
                    if call["arity"] == "stream_stream":
                        async for _ in ret:
                            pass
                else:
                    ret = await getattr(ac[svc], call["method"])(request=lib.mk(call["req_type"], b""), **kwargs_of(call))
                if call.get("paged"):
                    o["items"] = [x async for x in ret]
                o["outcome"] = {"ok": True}
            except Exception as e:  # noqa
                o["outcome"] = outcome_of(e)
            results[i] = finish(call, mark, s0, o)

    asyncio.run(amain())
    srv.stop()
    return {"results": results, "jitter_calls": len(vr.calls)}
