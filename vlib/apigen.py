"""Seeded API-description generator (descriptor level) with shape tags.

An `Api` bundles the FileDescriptorProtos, the files to generate, the plugin
options, auxiliary option files (service YAML, retry config) and synthetic
dependency packages (for which protoc's `_pb2.py` is written by the harness).
"""
import json
import os
import random

from google.protobuf import descriptor_pb2 as dpb

from vlib import build
from vlib.build import File, SCALARS, STD_DEPS, STD_DEP_MODULES

RES_WORDS = ["class", "type", "format", "from", "in", "max", "any", "all", "next", "object",
             "license", "hash", "dir", "filter", "id", "import", "global", "await", "None",
             "self", "cls", "mapping", "range", "property", "input", "not", "set", "str"]
WKT = ["Duration", "Timestamp", "FieldMask", "Struct", "Value", "ListValue", "Any",
       "BoolValue", "Int32Value", "Int64Value", "UInt32Value", "UInt64Value", "StringValue",
       "DoubleValue", "BytesValue", "FloatValue"]
PLAIN_NAMES = ["alpha", "beta", "gamma", "delta", "count", "size_bytes", "display_name", "etag",
               "uid", "labels_x", "state", "score", "payload", "ratio", "flag", "level", "note",
               "create_time", "ttl", "http_uri", "x2_value", "a1b2"]
MAP_KEYS = ["string", "int32", "int64", "uint32", "uint64", "sint32", "sint64", "fixed32",
            "fixed64", "sfixed32", "sfixed64", "bool"]


class Api:
    def __init__(self, name):
        self.name = name
        self.files = []           # File builders / FileDescriptorProto, all (targets and synthetic deps)
        self.targets = []         # file names to generate
        self.options = []         # plugin options (without file-valued ones)
        self.aux = {}             # option key -> (filename, text) written to scratch, e.g. 'retry-config'
        self.tags = set()
        self.synth_deps = []      # FileDescriptorProto names needing a _pb2 module
        self.dep_mods = list(STD_DEP_MODULES)
        self.info = {}            # free-form facts for oracles

    def add(self, f, target=True, synth=False):
        self.files.append(f)
        if target:
            self.targets.append(f.pb.name)
        if synth:
            self.synth_deps.append(f.pb.name)
        return f

    def parameter(self, scratch=None):
        opts = list(self.options)
        for key, (fname, text) in sorted(self.aux.items()):
            assert scratch, "aux files need a scratch dir"
            p = os.path.join(scratch, fname)
            with open(p, "w") as fh:
                fh.write(text)
            opts.append(f"{key}={p}")
        return ",".join(opts)

    def request(self, scratch=None):
        return build.make_request(self.files, self.targets, self.parameter(scratch), dep_mods=self.dep_mods)


def into_subpackage(api, sub="core"):
    """Move every target file of `api` into the proto sub-package <root>.<sub> (file names, package, every type reference, the
    fully qualified names in annotations and in the auxiliary option files) and add a sibling sub-package <root>.zsibling, so that the
    API's root package stays what it was.  Sibling sub-packages are the layout that works on the unchanged tree (DESIGN 10.2);
    snippets are switched off (they fail for services in sub-packages there)."""
    from google.protobuf import text_format
    pkg = api.info["pkg"]
    assert not api.info.get("sub"), "already in a sub-package"
    pdir = pkg.replace(".", "/")
    new_targets = []
    for f in api.files:
        if f.pb.name not in api.targets:
            continue
        txt = text_format.MessageToString(f.pb)
        txt = txt.replace(pkg + ".", pkg + "." + sub + ".").replace(pdir + "/", pdir + "/" + sub + "/")
        new = type(f.pb)()
        text_format.Parse(txt, new)
        if new.package == pkg:
            new.package = pkg + "." + sub
        f.pb.CopyFrom(new)
        if hasattr(f, "fq"):
            pass
        new_targets.append(f.pb.name)
    api.targets[:] = new_targets
    sib = File(f"{pdir}/zsibling/sibling.proto", pkg + ".zsibling", deps=[])
    sib.message("SiblingThing").field("label", "string")
    api.add(sib)
    for key, (fname, text) in list(api.aux.items()):
        api.aux[key] = (fname, text.replace('"' + pkg + ".", '"' + pkg + "." + sub + "."))
    api.options = [o for o in api.options if not o.startswith("autogen-snippets")] + ["autogen-snippets=false"]
    api.info["sub"] = sub
    api.tags.add("whole-api-in-a-sub-package")
    return api


def runner_root(api):
    """Import package of the module that exports the API's clients (the sub-package's module when the API lives in one)."""
    return lib_root(api.info, api.options) + ("." + api.info["sub"] if api.info.get("sub") else "")


def write_synth_pb2(req, names, root):
    """Write the module protoc --python_out would emit for each named file."""
    byname = {p.name: p for p in req.proto_file}
    for n in names:
        p = byname[n]
        mod_path = os.path.join(root, n[:-len(".proto")].replace("-", "_") + "_pb2.py")
        os.makedirs(os.path.dirname(mod_path), exist_ok=True)
        d = os.path.dirname(mod_path)
        while os.path.abspath(d) != os.path.abspath(root):
            init = os.path.join(d, "__init__.py")
            if not os.path.exists(init):
                open(init, "w").close()
            d = os.path.dirname(d)
        imports = []
        for dep in p.dependency:
            m = dep[:-len(".proto")].replace("/", ".").replace("-", "_") + "_pb2"
            imports.append(f"import {m}  # noqa")
        modname = n[:-len(".proto")].replace("/", ".").replace("-", "_") + "_pb2"
        with open(mod_path, "w") as fh:
            fh.write(
                "# harness-written stand-in for protoc --python_out\n"
                "from google.protobuf import descriptor_pool as _descriptor_pool\n"
                "from google.protobuf.internal import builder as _builder\n"
                + "\n".join(imports) + "\n"
                f"DESCRIPTOR = _descriptor_pool.Default().AddSerializedFile({p.SerializeToString()!r})\n"
                "_globals = globals()\n"
                "_builder.BuildMessageAndEnumDescriptors(DESCRIPTOR, _globals)\n"
                f"_builder.BuildTopDescriptorsAndMessages(DESCRIPTOR, {modname!r}, _globals)\n"
            )


def camel(s):
    return "".join(w.capitalize() for w in s.split("_"))


# ---------------------------------------------------------------------------
# field generators

NO_REP_BOOL = [False]


def rand_fields(rng, m, enums, msgs, n, tags, reserved=True, kinds=None, wkts=WKT):
    used = {x.name for x in m.pb.field}
    kinds = kinds or (["scalar"] * 5 + ["enum", "msg", "wkt", "rep_scalar", "rep_msg", "rep_enum",
                                        "map", "optional", "oneof"])
    for i in range(n):
        name = rng.choice(PLAIN_NAMES + (RES_WORDS if reserved else []))
        if name in used:
            name = f"{name}_{i}" if name not in RES_WORDS else f"f{i}_{name}"
        if name in used:
            continue
        used.add(name)
        if name in RES_WORDS:
            tags.add("reserved-field")
        kind = rng.choice(kinds)
        tags.add("f:" + kind)
        if kind == "scalar":
            t = rng.choice(list(SCALARS))
            tags.add("t:" + t)
            m.field(name, t)
        elif kind == "enum":
            m.field(name, rng.choice(enums))
        elif kind == "msg":
            m.field(name, rng.choice(msgs))
        elif kind == "wkt":
            w = rng.choice(wkts)
            tags.add("wkt:" + w)
            m.field(name, ".google.protobuf." + w)
        elif kind == "rep_scalar":
            m.field(name, rng.choice([t for t in SCALARS if not (NO_REP_BOOL[0] and t == "bool")]), repeated=True)
        elif kind == "rep_msg":
            m.field(name, rng.choice(msgs + [".google.protobuf." + rng.choice(wkts)]), repeated=True)
        elif kind == "rep_enum":
            m.field(name, rng.choice(enums), repeated=True)
        elif kind == "map":
            k = rng.choice(MAP_KEYS)
            tags.add("mapkey:" + k)
            m.map(name, k, rng.choice(["string", "bytes", "double", "int64", "bool"] + enums + msgs))
        elif kind == "optional":
            m.field(name, rng.choice(list(SCALARS) + enums + msgs), optional=True)
        elif kind == "oneof":
            on = "choice_" + name.strip("_").lower()
            m.field(name, rng.choice(list(SCALARS) + enums), oneof=on)
            if name + "_alt" not in used:
                used.add(name + "_alt")
                m.field(name + "_alt", rng.choice(list(SCALARS) + msgs + enums), oneof=on)


# ---------------------------------------------------------------------------
# conventional (resource-oriented) API; wellformed adds shapes on top

def conventional(rng, name, feat=None):
    """Resource-oriented API inside the conventions the emitted tests target
    (DESIGN §8).  feat switches extra shapes on (used by `wellformed`)."""
    feat = feat or {}
    api = Api(name)
    tags = api.tags
    ver = feat.get("version", rng.choice(["v1", "v1beta1", "v2alpha", "v1p1beta1"]))
    ns = feat.get("ns", ["vp"])
    pkg = ".".join([*ns, name] + ([ver] if ver else []))
    tags.add("ver:" + (ver or "none"))
    tags.add(f"ns:{len(ns)}")
    P = "." + pkg
    dirp = pkg.replace(".", "/")
    nfiles = feat.get("nfiles", 1)
    f = File(f"{dirp}/{name}.proto", pkg, deps=list(STD_DEPS))
    tf = f  # file holding shared types
    if nfiles > 1:
        tf = File(f"{dirp}/{name}_types.proto", pkg, deps=list(STD_DEPS))
        f.pb.dependency.append(tf.pb.name)
        api.add(tf)
        tags.add("multi-file")
    api.add(f)
    uver = ver or "v0"
    enums = [tf.enum("State", "STATE_UNSPECIFIED", "ACTIVE", "DELETED"),
             tf.enum("Tier", "TIER_UNSPECIFIED", "FREE", "PAID", numbers=[0, 5, 2] if feat.get("exotic") else None)]
    aux = tf.message("Aux")
    msgs = [P + ".Aux"]
    inner = aux.nested("Inner")
    inner.field("value", "string")
    inner.field("weight", "double")
    msgs.append(P + ".Aux.Inner")
    enums.append(aux.enum("Mode", "MODE_UNSPECIFIED", "FAST", "SLOW"))
    reserved = feat.get("reserved", True)
    rand_fields(rng, aux, enums, msgs, rng.randint(1, 5), tags, reserved)
    if NO_REP_BOOL[0] and aux.pb.field and aux.pb.field[0].label == 3 and aux.pb.field[0].type == 11 \
            and not aux.pb.field[0].type_name.endswith("Entry"):
        # DESIGN §8.6 (C13 profile only): the emitted tests' mock for a flattened Aux follows first fields; a first field that is
        # a repeated message leading back to Aux ends the recursion with [None] inside a list, which no message accepts
        aux.pb.field[0].label = 1
    if rng.random() < 0.5:
        aux.field("self_ref", P + ".Aux")
        tags.add("recursive")
    if feat.get("exotic"):
        # deep nesting, mutual recursion, forward reference
        d1 = inner.nested("Deep")
        d2 = d1.nested("Deeper")
        d2.field("leaf", "sint64")
        d2.field("back", P + ".Aux")
        d1.field("deeper", P + ".Aux.Inner.Deep.Deeper")
        dk = d1.enum("Kind", "KIND_UNSPECIFIED", "ONE")
        inner.field("deep", P + ".Aux.Inner.Deep")
        # the OUTERMOST message refers to types nested two and three levels below itself (singular enum, repeated message, map value)
        aux.field("grand_kind", dk)
        aux.field("grand_deepers", P + ".Aux.Inner.Deep.Deeper", repeated=True)
        aux.map("grand_by_key", "string", P + ".Aux.Inner.Deep")
        tags.add("outer-message-uses-grandchild-types")
        ma = tf.message("MutA")
        ma.field("b", P + ".MutB")          # forward reference
        ma.field("later", P + ".Later", repeated=True)
        mb = tf.message("MutB")
        mb.field("a", P + ".MutA")
        mb.map("by_key", rng.choice(MAP_KEYS), P + ".MutA")
        lt = tf.message("Later")
        lt.field("v", "fixed64", optional=True)
        msgs += [P + ".MutA", P + ".Aux.Inner.Deep"]
        tags.update(["deep-nesting", "mutual-recursion", "forward-ref"])
    if feat.get("exotic") or feat.get("collide"):
        # field names colliding with names the emitted types module itself binds: the imported sibling module
        # (<name>_types), the proto-plus module `proto`, well-known module names; top-level and nested, each followed
        # by a field that needs the shadowed name
        # (the generator's collision set is per file: each colliding name is placed at ONE nesting level only, so that
        # a set computed from the wrong level is exposed)
        cm = f.message("Collide")
        lv = {k: rng.choice(["top", "nested", "deeper"]) for k in ("proto", "types", "duration", "timestamp")}
        tmod = f"{name}_types"
        if lv["proto"] == "top":
            cm.field("proto", "string")
        cm.field("after_proto", P + ".Aux")
        if nfiles > 1 and lv["types"] == "top":
            cm.field(tmod, "string")
        cm.field("after_types", P + ".Aux")
        if lv["duration"] == "top":
            cm.field("duration", ".google.protobuf.Duration")
        if lv["timestamp"] == "top":
            cm.field("timestamp", "string")
        cm.field("later", ".google.protobuf.Timestamp")
        cm.field("span", ".google.protobuf.Duration")
        cn = cm.nested("Nested")
        if lv["proto"] == "nested":
            cn.field("proto", "int32")
        if lv["duration"] == "nested":
            cn.field("duration", ".google.protobuf.Duration")
        cn.field("when", ".google.protobuf.Duration")
        if nfiles > 1 and lv["types"] == "nested":
            cn.field(tmod, "bool")
        if lv["timestamp"] == "nested":
            cn.field("timestamp", "string")
        cn.field("after", P + ".Aux")
        cn.field("at", ".google.protobuf.Timestamp")
        cn.field("state", enums[0])
        cd = cn.nested("Deeper")
        if lv["timestamp"] == "deeper":
            cd.field("timestamp", "string")
        if lv["proto"] == "deeper":
            cd.field("proto", "string")
        if nfiles > 1 and lv["types"] == "deeper":
            cd.field(tmod, "bytes")
        if lv["duration"] == "deeper":
            cd.field("duration", "string")
        cd.field("ts", ".google.protobuf.Timestamp")
        cd.field("dur", ".google.protobuf.Duration")
        cd.field("aux", P + ".Aux", repeated=True)
        tags.add("field-shadows-module")
    host = f"{name}.googleapis.com"
    svc_names = ["Main"] if rng.random() < 0.6 else ["Main", "Admin"]
    svcs = [f.service(n, host=host, scopes="https://www.googleapis.com/auth/cloud-platform") for n in svc_names]
    if len(svcs) > 1:
        tags.add("multi-service")
    if feat.get("idle_service"):
        # a service that declares no RPC at all (it still gets clients, transports and a metadata entry per client kind)
        f.service("Idle", host=host, scopes="https://www.googleapis.com/auth/cloud-platform")
        tags.add("service-without-rpcs")
    nres = rng.randint(1, 3)
    for r in range(nres):
        R = ["Widget", "Gadget", "Doohickey"][r]
        rl = R.lower()
        coll = rl + "s"
        s = rng.choice(svcs)
        child = rng.random() < 0.5
        pat = f"projects/{{project}}/{coll}/{{{rl}}}" if child else f"{coll}/{{{rl}}}"
        name_glob = f"projects/*/{coll}/*" if child else f"{coll}/*"
        rt = f"{name}.googleapis.com/{R}"
        m = tf.message(R)
        m.resource(rt, pat)
        m.field("name", "string")
        rand_fields(rng, m, enums, msgs, rng.randint(2, 8), tags, reserved)
        msgs.append(P + "." + R)
        q = f.message(f"Get{R}Request")
        q.field("name", "string", required=True, ref=rt)
        if rng.random() < 0.4:
            rand_fields(rng, q, enums, [P + ".Aux"], 2, tags, reserved)
        if feat.get("multi_behavior") and rng.random() < 0.7:
            # google.api.field_behavior is a list: REQUIRED next to another behaviour, declared after optional fields
            from google.api import field_behavior_pb2 as fb_
            q.field("read_hint", "string")
            q.field("tenant", "string", behaviors=rng.choice([[fb_.INPUT_ONLY, fb_.REQUIRED], [fb_.REQUIRED, fb_.IMMUTABLE]]))
            q.field("trace", "string")
            q.field("scope", "string", behaviors=[fb_.IMMUTABLE, fb_.REQUIRED])
            # ... and a REQUIRED field whose name is a reserved word (its Python name differs from its proto name), declared late
            q.field("note_hint", "string")
            taken_ = {x.name for x in q.pb.field}
            q.field(next(w_ for w_ in rng.sample(["type", "format", "from", "class", "global", "license"], 6) if w_ not in taken_), "string", required=True)
            tags.add("required-with-second-behavior-after-optional")
        s.rpc(f"Get{R}", P + f".Get{R}Request", P + "." + R,
              http={"get": f"/{uver}/{{name={name_glob}}}"}, sigs=["name"])
        q = f.message(f"List{R}sRequest")
        if child:
            q.field("parent", "string", required=True, child_ref=rt)
        q.field("page_size", "int32")
        q.field("page_token", "string")
        q.field("filter", "string")
        if rng.random() < 0.5:
            q.field("order_by", "string")
        if rng.random() < 0.3:
            q.field("view", rng.choice(enums), required=rng.random() < 0.5)
        o = f.message(f"List{R}sResponse")
        o.field(coll, P + "." + R, repeated=True)
        o.field("next_page_token", "string")
        if rng.random() < 0.4:
            o.field("unreachable", "string", repeated=True)
        # explicit routing on a paginated method (google.storage.v2.ListObjects has this shape)
        routed = rng.random() < 0.35
        if routed:
            tags.add("explicit-routing-on-paged")
        s.rpc(f"List{R}s", P + f".List{R}sRequest", P + f".List{R}sResponse",
              http={"get": f"/{uver}/{{parent=projects/*}}/{coll}" if child else f"/{uver}/{coll}"},
              sigs=["parent"] if child else [],
              routing=([("parent", rng.choice(["", "{project=projects/*}", "{parent=**}"]))] if child else [("filter", "{routing_id=*}")]) if routed else None)
        tags.add("paged")
        q = f.message(f"Create{R}Request")
        if child:
            q.field("parent", "string", required=True, child_ref=rt)
        q.field(rl, P + "." + R, required=True)
        q.field(rl + "_id", "string", required=rng.random() < 0.5)
        if rng.random() < 0.5:
            q.field("request_id", "string", uuid4=True)
        if rng.random() < 0.3:
            q.field("validate_only", "bool")
        lro = rng.random() < 0.35 and feat.get("lro", True)
        if feat.get("lro_force") and r == 0:
            lro = True        # the option set under test needs a long-running method (never left to the draw)
        if lro:
            tags.add("lro")
            if not any(x.name == "OperationMetadata" for x in tf.pb.message_type):
                om = tf.message("OperationMetadata")
                om.field("create_time", ".google.protobuf.Timestamp")
                om.field("verb", "string")
        s.rpc(f"Create{R}", P + f".Create{R}Request",
              ".google.longrunning.Operation" if lro else P + "." + R,
              http={"post": f"/{uver}/{{parent=projects/*}}/{coll}" if child else f"/{uver}/{coll}"},
              body=rl, sigs=[("parent," if child else "") + f"{rl},{rl}_id"],
              lro=(R, "OperationMetadata") if lro else None)
        q = f.message(f"Update{R}Request")
        q.field(rl, P + "." + R, required=True)
        q.field("update_mask", ".google.protobuf.FieldMask")
        if rng.random() < 0.3:
            q.field("allow_missing", "bool")
        s.rpc(f"Update{R}", P + f".Update{R}Request", P + "." + R,
              http={"patch": f"/{uver}/{{{rl}.name={name_glob}}}"}, body=rl, sigs=[f"{rl},update_mask"])
        tags.add("dotted-path-var")
        q = f.message(f"Delete{R}Request")
        q.field("name", "string", required=True, ref=rt)
        if rng.random() < 0.4:
            q.field("etag", "string")
        if rng.random() < 0.3:
            q.field("force", "bool")
        s.rpc(f"Delete{R}", P + f".Delete{R}Request", ".google.protobuf.Empty",
              http={"delete": f"/{uver}/{{name={name_glob}}}"}, sigs=["name"])
        tags.add("void")
        if rng.random() < 0.4:
            # pagination over a map field: the pager's get()/attribute lookups answer from the most recent page
            q = f.message(f"List{R}IndexRequest")
            if child:
                q.field("parent", "string", required=True, child_ref=rt)
            q.field("page_size", "int32")
            q.field("page_token", "string")
            o = f.message(f"List{R}IndexResponse")
            o.map("index", "string", P + "." + R)
            o.field("next_page_token", "string")
            o.field("total_size", "int32")
            s.rpc(f"List{R}Index", P + f".List{R}IndexRequest", P + f".List{R}IndexResponse",
                  http={"get": f"/{uver}/{{parent=projects/*}}/{coll}:index" if child else f"/{uver}/{coll}:index"},
                  sigs=["parent"] if child else [])
            tags.add("paged-over-map")
        if rng.random() < 0.5:
            # a singleton sub-resource (AIP-156): the pattern ends in literal text after the last variable
            sc = tf.message(f"{R}Config")
            sc.resource(f"{name}.googleapis.com/{R}Config", pat + "/config")
            sc.field("name", "string")
            sc.field("enabled", "bool")
            q = f.message(f"Get{R}ConfigRequest")
            q.field("name", "string", required=True, ref=f"{name}.googleapis.com/{R}Config")
            s.rpc(f"Get{R}Config", P + f".Get{R}ConfigRequest", P + f".{R}Config",
                  http={"get": f"/{uver}/{{name={name_glob}/config}}"}, sigs=["name"])
            tags.add("singleton-resource")
        if rng.random() < 0.7:
            verb = rng.choice(["Activate", "Export", "Import", "Rotate", "Class"])
            q = f.message(f"{verb}{R}Request")
            q.field("name", "string", required=True, ref=rt)
            rand_fields(rng, q, enums, msgs, rng.randint(0, 4), tags, reserved)
            o = f.message(f"{verb}{R}Response")
            rand_fields(rng, o, enums, msgs, rng.randint(0, 3), tags, reserved)
            body = rng.choice(["*", "*", None])
            extra = [({"post": f"/{uver}/{{name=organizations/*/{coll}/*}}:{verb.lower()}"}, body)] if rng.random() < 0.3 else []
            if extra:
                tags.add("additional-binding")
            tags.add("body:" + str(body))
            s.rpc(f"{verb}{R}", P + f".{verb}{R}Request", P + f".{verb}{R}Response",
                  http={"post": f"/{uver}/{{name={name_glob}}}:{verb.lower()}"}, body=body, sigs=["name"], extra=extra)
        if rng.random() < 0.5:
            # several REQUIRED scalars that travel as query parameters, declared in non-alphabetical order
            q = f.message(f"Search{R}sRequest")
            if child:
                q.field("parent", "string", required=True, child_ref=rt)
            reqs_ = [("query", "string"), ("language_code", "string"), ("max_items", "int32"), ("exact", "bool"), ("boost", "double")]
            rng.shuffle(reqs_)
            for n_, t_ in reqs_[:rng.randint(2, 4)]:
                q.field(n_, t_, required=True)
            q.field("order_by", "string")
            o = f.message(f"Search{R}sResponse")
            o.field(coll, P + "." + R, repeated=True)
            o.field("total", "int32")
            s.rpc(f"Search{R}s", P + f".Search{R}sRequest", P + f".Search{R}sResponse",
                  http={"get": f"/{uver}/{{parent=projects/*}}/{coll}:search" if child else f"/{uver}/{coll}:search"},
                  sigs=["parent"] if child else [])
            tags.add("required-query-params")
        if rng.random() < 0.4:
            q = f.message(f"Watch{R}Request")
            q.field("name", "string", required=True)
            q.field("cursor", "string")
            s.rpc(f"Watch{R}", P + f".Watch{R}Request", P + "." + R, ss=True,
                  http={"get": f"/{uver}/{{name={name_glob}}}:watch"}, sigs=["name"])
            tags.add("server-streaming")
    if rng.random() < 0.5 or feat.get("streams"):
        q = f.message("ChatMessage")
        q.field("text", "string")
        q.field("seq", "int64")
        # streaming kinds are drawn per service and independently: a service may have only client streaming, only
        # server streaming, only bidi, or any mix (imports and helpers of the emitted client depend on the mix)
        any_stream = False
        for si, s in enumerate(svcs):
            sfx = "" if si == 0 else str(si)
            picks = [k for k in ("bidi", "client", "server") if rng.random() < 0.45]
            if not picks and not any_stream and si == len(svcs) - 1:
                picks = [rng.choice(["bidi", "client", "server"])]
            for k in picks:
                any_stream = True
                if k == "bidi":
                    s.rpc("Chat" + sfx, P + ".ChatMessage", P + ".ChatMessage", cs=True, ss=True)
                    tags.add("bidi-streaming")
                elif k == "client":
                    s.rpc("Collect" + sfx, P + ".ChatMessage", P + ".ChatMessage", cs=True)
                    tags.add("client-streaming")
                else:
                    s.rpc("Tail" + sfx, P + ".ChatMessage", P + ".ChatMessage", ss=True)
                    tags.add("server-streaming")
            if picks:
                tags.add("stream-mix:" + "+".join(picks))
        if rng.random() < 0.5:
            # a small service whose only RPC has one streaming kind (nothing else in the service pulls in the
            # typing/iterator imports that kind needs)
            kind = rng.choice(["client", "server", "bidi"])
            solo = f.service({"client": "Uploader", "server": "Feeder", "bidi": "Duplex"}[kind], host=host)
            solo.rpc({"client": "Upload", "server": "Feed", "bidi": "Talk"}[kind], P + ".ChatMessage", P + ".ChatMessage",
                     cs=kind in ("client", "bidi"), ss=kind in ("server", "bidi"))
            tags.add("solo-stream-service:" + kind)
    if feat.get("exotic") or feat.get("collide"):
        # locally defined types whose simple names equal well-known ones: they are ordinary messages of this package
        lf = tf
        le = lf.message("Empty")
        le.field("reason", "string")
        ls = lf.message("Status")
        ls.field("code", "int32")
        ls.field("detail", "string")
        lo = lf.message("Operation")
        lo.field("name", "string")
        lo.field("done", "bool")
        la = lf.message("Any")
        la.field("blob", "bytes")
        slot = lf.message("Slot")
        se = slot.nested("Empty")
        se.field("since", "int64")
        slot.field("empty", P + ".Slot.Empty")
        slot.field("status", P + ".Status")
        slot.field("real_status", ".google.rpc.Status")
        slot.field("real_any", ".google.protobuf.Any")
        slot.field("local_any", P + ".Any")
        s = svcs[-1]
        s.rpc("PingLocal", P + ".ChatMessage" if any(m.name == "ChatMessage" for m in f.pb.message_type) else P + ".Aux", P + ".Empty")
        s.rpc("PeekSlot", P + ".Slot", P + ".Slot.Empty")
        s.rpc("LocalOp", P + ".Slot", P + ".Operation")
        s.rpc("LocalStatus", P + ".Status", P + ".Status")
        if rng.random() < 0.5:
            s.rpc("WatchSlots", P + ".Slot", P + ".Slot.Empty", ss=True)
        tags.add("local-wellknown-names")
    if len(svcs) > 1 and rng.random() < 0.6:
        # the same RPC name in two services, with different request messages
        qa = f.message("ProbeRequest")
        qa.field("name", "string", required=True)
        qa.field("depth", "int32")
        qb = f.message("AdminProbeRequest")
        qb.field("reason", "string")
        qb.field("name", "string", required=True)
        qb.field("force", "bool", required=True)
        svcs[0].rpc("Probe", P + ".ProbeRequest", P + ".Aux", http={"get": f"/{uver}/{{name=probes/*}}"}, sigs=["name"])
        svcs[1].rpc("Probe", P + ".AdminProbeRequest", P + ".Aux", http={"get": f"/{uver}/{{name=adminProbes/*}}"}, sigs=["name"])
        tags.add("same-rpc-name-two-services")
    if reserved and rng.random() < 0.5:
        # a method signature naming fields that are Python keywords / reserved words
        q = f.message("MoveThingRequest")
        q.field("name", "string", required=True)
        q.field("from", "string")
        q.field("to", "string")
        q.field("class", "int32")
        q.field("type", "string")
        rng.choice(svcs).rpc("MoveThing", P + ".MoveThingRequest", P + ".Aux", http={"post": f"/{uver}/{{name=movables/*}}:move"}, body="*",
                             sigs=[rng.choice(["name,from,to", "name,class", "name,from,type"])])
        tags.add("keyword-fields-in-signature")
    if rng.random() < 0.5:
        # method signatures that flatten a map and a list (the clients apply these with update()/extend())
        q = f.message("SetLabelsRequest")
        q.field("name", "string", required=True)
        q.map("labels", "string", "string")
        q.field("aliases", "string", repeated=True)
        q.map("quotas", "string", "int64")
        q.field("auxes", P + ".Aux", repeated=True)
        sig = rng.choice([["name,labels"], ["name,aliases"], ["name,labels,aliases"], ["name,quotas", "name,labels,auxes"]])   # always covering the HTTP path field (C13's convention)
        rng.choice(svcs).rpc("SetLabels", P + ".SetLabelsRequest", P + ".Aux", http={"post": f"/{uver}/{{name=labelled/*}}:setLabels"}, body="*", sigs=sig)
        tags.add("flattened-map-or-list")
    if feat.get("odd_rpcs"):
        # RPC names that collide with Python keywords or with attributes of the transport classes
        q = f.message("OddRequest")
        q.field("name", "string")
        q.field("n", "int32")
        o = f.message("OddReply")
        o.field("text", "string")
        s = svcs[0]
        for nm in rng.sample(["Import", "Yield", "Return", "Pass", "Class", "CreateChannel", "GrpcChannel", "OperationsClient"], 4):
            if nm == "Yield":
                s.rpc(nm, P + ".OddRequest", P + ".OddReply", ss=True)
            else:
                s.rpc(nm, P + ".OddRequest", P + ".OddReply")
        tags.add("odd-rpc-names")
    if feat.get("int_path_var"):
        # an HTTP path variable bound to a non-string scalar (the project's fragment test_required_non_string.proto has this shape)
        rq_ = f.message("GetReadingRequest")
        rq_.field("station", "string", required=True)
        rq_.field("sequence", rng.choice(["int32", "int64", "uint32"]), required=True)
        rd_ = f.message("Reading")
        rd_.field("value", "double")
        svcs[0].rpc("GetReading", P + ".GetReadingRequest", P + ".Reading",
                    http={"get": f"/{uver}/{{station=stations/*}}/readings/{{sequence}}"}, sigs=["station,sequence"])
        tags.add("non-string-path-variable")
    if feat.get("reserved_path_var"):
        # an HTTP path variable whose field is named by a reserved word (read from type_/from_, sent as type=/from=), one of them paginated
        rq_ = f.message("GetSchemaRequest")
        rq_.field("type", "string", required=True)
        sc_ = f.message("SchemaInfo")
        sc_.field("text", "string")
        svcs[0].rpc("GetSchema", P + ".GetSchemaRequest", P + ".SchemaInfo", http={"get": f"/{uver}/{{type=schemaTypes/*}}"}, sigs=["type"])
        lq_ = f.message("ListEntriesRequest")
        lq_.field("from", "string", required=True)
        lq_.field("page_size", "int32")
        lq_.field("page_token", "string")
        lo_ = f.message("ListEntriesResponse")
        lo_.field("entries", P + ".SchemaInfo", repeated=True)
        lo_.field("next_page_token", "string")
        svcs[0].rpc("ListEntries", P + ".ListEntriesRequest", P + ".ListEntriesResponse", http={"get": f"/{uver}/{{from=shelves/*}}/entries"}, sigs=["from"])
        tags.add("reserved-word-path-variable")
    if feat.get("iam_direct"):
        # google.iam.v1 types used directly, without the IAM mixin: a Policy field on a resource (cloudasset has one) and IAM
        # RPCs the API declares itself (pubsub, bigtable admin): the library then needs grpc-google-iam-v1 at run time
        for fl in {id(f): f, id(tf): tf}.values():
            for d in ("google/iam/v1/iam_policy.proto", "google/iam/v1/policy.proto"):
                if d not in fl.pb.dependency:
                    fl.pb.dependency.append(d)
        api.dep_mods += ["google.iam.v1.iam_policy_pb2", "google.iam.v1.policy_pb2"]
        res0 = [m_ for m_ in tf.pb.message_type if m_.name == "Widget"][0]
        build.Msg(res0, P + ".Widget", tf).field("iam_policy", ".google.iam.v1.Policy")
        if feat["iam_direct"] == "rpcs":
            s = svcs[0]
            s.rpc("GetIamPolicy", ".google.iam.v1.GetIamPolicyRequest", ".google.iam.v1.Policy",
                  http={"post": f"/{uver}/{{resource=widgets/*}}:getIamPolicy"}, body="*", sigs=["resource"])
            s.rpc("SetIamPolicy", ".google.iam.v1.SetIamPolicyRequest", ".google.iam.v1.Policy",
                  http={"post": f"/{uver}/{{resource=widgets/*}}:setIamPolicy"}, body="*")
        tags.add("iam-types-used-directly:" + str(feat["iam_direct"]))
    if feat.get("foreign"):
        # requests/responses from dependency packages (pb2 classes at run time)
        f.pb.dependency.extend(["google/iam/v1/iam_policy.proto", "google/iam/v1/policy.proto"])
        api.dep_mods += ["google.iam.v1.iam_policy_pb2", "google.iam.v1.policy_pb2"]
        s = svcs[-1]
        s.rpc("Ping", ".google.protobuf.Empty", ".google.protobuf.Empty")
        s.rpc("SetDate", ".google.type.Date", ".google.type.LatLng")
        s.rpc("CheckPolicy", ".google.iam.v1.GetIamPolicyRequest", ".google.iam.v1.Policy")
        s.rpc("StreamDates", ".google.type.Date", ".google.type.Date", cs=True, ss=True)
        s.rpc("TailDates", ".google.type.Date", P + ".Aux", ss=True)
        s.rpc("PushAux", P + ".Aux", ".google.type.Date", cs=True)
        s.rpc("Plain", P + ".Aux", P + ".Aux")
        tags.update(["foreign-request", "foreign-response", "unbound-rpc"])
    if feat.get("shuffle_numbers", True):
        # field numbers need not follow declaration order (a field added in a later revision at the top of a message)
        for fl in (f, tf):
            for mpb in fl.pb.message_type:
                if mpb.name.endswith("Request") and rng.random() < 0.35 and len(mpb.field) > 2:
                    nums = [x.number for x in mpb.field]
                    rng.shuffle(nums)
                    for x, nnew in zip(mpb.field, nums):
                        x.number = nnew
                    tags.add("field-numbers-out-of-order")
    api.info.update(pkg=pkg, version=ver, ns=ns, name=name, host=host)
    return api


OPTION_SETS = [
    ["transport=grpc"],
    ["transport=rest"],
    ["transport=grpc+rest"],
    ["transport=grpc+rest", "rest-numeric-enums"],
    ["transport=rest", "rest-numeric-enums", "metadata"],
    ["transport=grpc", "metadata", "autogen-snippets=false"],
    ["transport=grpc+rest", "metadata", "autogen-snippets"],
    [],
]


def lib_root(api_info, options=()):
    """Reference naming rule (C11): (namespace tuple, name, version) -> import
    package of the versioned library, honouring the overrides."""
    ns = [s for s in api_info["ns"]]
    name = api_info["name"]
    ver = api_info["version"]
    for o in options:
        if o.startswith("python-gapic-namespace="):
            ns = o.split("=", 1)[1].split("+") if "+" in o else o.split("=", 1)[1].split(".")
        if o.startswith("python-gapic-name="):
            name = o.split("=", 1)[1]
    old = "old-naming" in options
    mod = name.lower().replace("-", "_") + ((("." if old else "_") + ver) if ver else "")
    return ".".join([s.lower() for s in ns] + [mod])


def add_subpackage(api, rng, with_service):
    """A target file in the proto sub-package <pkg>.sub whose types the main file uses (C01 quantifier: 'files in
    proto sub-packages').  Known findings C01-subpackage-*."""
    pkg = api.info["pkg"]
    P = "." + pkg
    main = [x for x in api.files if x.pb.name.endswith(f"/{api.info['name']}.proto")][0]
    fs = File(pkg.replace(".", "/") + "/sub/parts.proto", pkg + ".sub", deps=list(STD_DEPS))
    m = fs.message("Part")
    m.field("id", "string")
    fs.enum("PartKind", "PART_KIND_UNSPECIFIED", "BOLT")
    main.pb.dependency.append(fs.pb.name)
    holder = main.message("PartHolder")
    holder.field("part", P + ".sub.Part")
    holder.field("kind", "enum:" + P + ".sub.PartKind")
    if with_service:
        s2 = fs.service("Parts", host=api.info["host"])
        s2.rpc("GetPart", P + ".sub.Part", P + ".sub.Part")
        api.tags.add("subpackage-service")
    api.files.insert(0, fs)
    api.targets.insert(0, fs.pb.name)
    api.tags.add("subpackage")


def wellformed(rng, name, zero_ns=False, extra_feat=None):
    """Conventional core plus the extra shapes of DESIGN §4.  zero_ns: allow a
    package without namespace segment (known finding C01-zero-namespace)."""
    feat = {
        "version": rng.choice(["v1", "v1beta1", "v1p1beta1", "v2alpha", "v1", None]),
        "ns": rng.choice([["vp"], ["vp", "cloud"], ["vp", "cloud", "x3"], ["vp"]] + ([[]] if zero_ns else [])),
        "odd_rpcs": rng.random() < 0.5,
        "nfiles": rng.choice([1, 1, 2]),
        "exotic": rng.random() < 0.6,
        "streams": rng.random() < 0.5,
        "foreign": rng.random() < 0.5,
    }
    feat.update(extra_feat or {})
    api = conventional(rng, name, feat)
    api.info["feat"] = {k: v for k, v in feat.items()}
    if rng.random() < 0.4:
        add_dep_namesake_file(api, rng)
    if rng.random() < 0.3:
        # an RPC whose snake_case name is the base name of the file its types live in (rpc Lookup + lookup.proto), followed by another
        # RPC that uses a type of that file: the module must be imported under an alias in the service's modules
        main = [x for x in api.files if x.pb.name.endswith(f"/{name}.proto")][0]
        pkg_ = api.info["pkg"]
        fl = File(pkg_.replace(".", "/") + "/lookup.proto", pkg_, deps=list(STD_DEPS))
        for mn in ("LookupRequest", "LookupReply", "SuggestRequest"):
            fl.message(mn).field("text", "string")
        api.add(fl)
        main.pb.dependency.append(fl.pb.name)
        svc0 = build.Svc(main.pb.service[0], main)
        svc0.rpc("Lookup", f".{pkg_}.LookupRequest", f".{pkg_}.LookupReply")
        svc0.rpc("Suggest", f".{pkg_}.SuggestRequest", f".{pkg_}.LookupReply")
        api.tags.add("rpc-named-like-its-types-module")
    if rng.random() < 0.3:
        # google.api.default_host is optional: a service without it (next to services that have one) is still importable and usable
        # with an explicit endpoint
        main = [x for x in api.files if x.pb.name.endswith(f"/{name}.proto")][0]
        hs = main.service("Hostless")
        hs.rpc("Peek", "." + api.info["pkg"] + ".Aux", "." + api.info["pkg"] + ".Aux")
        api.tags.add("service-without-default-host")
    # a file whose ONLY use of another target file is as the value type of map fields (message and enum values): that file's module
    # is needed by the emitted class bodies all the same
    pkg_ = api.info["pkg"]
    ffar = File(pkg_.replace(".", "/") + "/far_label.proto", pkg_, deps=list(STD_DEPS))
    ffar.message("FarLabel").field("text", "string")
    ffar.enum("FarKind", "FAR_KIND_UNSPECIFIED", "NEAR", "FAR")
    api.add(ffar)
    fhold = File(pkg_.replace(".", "/") + "/map_holder.proto", pkg_, deps=list(STD_DEPS) + [ffar.pb.name])
    mh = fhold.message("MapHolder")
    mh.map("far_labels", "string", f".{pkg_}.FarLabel")
    mh.map("far_kinds", "int32", f"enum:.{pkg_}.FarKind")
    mh.field("note", "string")
    api.add(fhold)
    api.tags.add("map-value-type-is-the-only-use-of-another-file")
    return api


def add_dep_namesake_file(api, rng):
    """A target file that carries the base name of a dependency file whose type it uses (acme/x/v1/status.proto with a
    google.rpc.Status field; an API's own timestamp.proto, date.proto): two modules of one base name in one types module."""
    pkg = api.info["pkg"]
    base, typ, own = rng.choice([("status", ".google.rpc.Status", "JobStatus"), ("timestamp", ".google.protobuf.Timestamp", "Stamped"),
                                 ("date", ".google.type.Date", "DateRange"), ("duration", ".google.protobuf.Duration", "Lease"),
                                 ("latlng", ".google.type.LatLng", "Place")])
    fx = File(pkg.replace(".", "/") + f"/{base}.proto", pkg, deps=list(STD_DEPS))
    m = fx.message(own)
    m.field("label", "string")
    m.field("detail", typ)
    m.field("history", typ, repeated=True)
    fx.enum(own + "Kind", (own + "_kind_unspecified").upper(), (own + "_plain").upper())
    api.add(fx)
    api.tags.add("target-file-named-like-dependency-file:" + base)


MIXIN_RULES = {
    "locations": ("google.cloud.location.Locations", [
        ("google.cloud.location.Locations.GetLocation", {"get": "/v1/{name=projects/*/locations/*}"}),
        ("google.cloud.location.Locations.ListLocations", {"get": "/v1/{name=projects/*}/locations"}),
    ]),
    "iam": ("google.iam.v1.IAMPolicy", [
        ("google.iam.v1.IAMPolicy.GetIamPolicy", {"get": "/v1/{resource=projects/*/things/*}:getIamPolicy"}),
        ("google.iam.v1.IAMPolicy.SetIamPolicy", {"post": "/v1/{resource=projects/*/things/*}:setIamPolicy", "body": "*"}),
        ("google.iam.v1.IAMPolicy.TestIamPermissions", {"post": "/v1/{resource=projects/*/things/*}:testIamPermissions", "body": "*"}),
    ]),
    "operations": ("google.longrunning.Operations", [
        ("google.longrunning.Operations.GetOperation", {"get": "/v1/{name=projects/*/operations/*}"}),
        ("google.longrunning.Operations.ListOperations", {"get": "/v1/{name=projects/*}/operations"}),
        ("google.longrunning.Operations.DeleteOperation", {"delete": "/v1/{name=projects/*/operations/*}"}),
        ("google.longrunning.Operations.CancelOperation", {"post": "/v1/{name=projects/*/operations/*}:cancel", "body": "*"}),
        ("google.longrunning.Operations.WaitOperation", {"post": "/v1/{name=projects/*/operations/*}:wait", "body": "*"}),
    ]),
}


def service_yaml(api, mixins=(), rules=None, publishing=None, extra_rules=()):
    """Service YAML text (JSON is YAML).  mixins: subset of MIXIN_RULES keys;
    rules: {mixin: [indices of rules kept]} (default all)."""
    apis = []
    for f in api.files:
        pb = f.pb if hasattr(f, "pb") else f
        if pb.name in api.targets:
            for s in pb.service:
                apis.append({"name": f"{pb.package}.{s.name}"})
    http_rules = []
    for m in mixins:
        apiname, rl = MIXIN_RULES[m]
        apis.append({"name": apiname})
        keep = rules.get(m) if rules and m in rules else range(len(rl))
        for i in keep:
            sel, r = rl[i]
            http_rules.append({"selector": sel, **r})
    http_rules.extend(extra_rules)
    doc = {"type": "google.api.Service", "config_version": 3,
           "name": api.info.get("host", "x.googleapis.com"), "title": "Harness API", "apis": apis}
    if http_rules:
        doc["http"] = {"rules": http_rules}
    if publishing:
        doc["publishing"] = publishing
    return json.dumps(doc, indent=1)


def types_zoo(rng, name, nmsgs=6):
    """Message-graph heavy API (C02): every scalar type in every cardinality,
    maps over every legal key type, oneofs, optional, nesting <= 4, recursion,
    forward and cross-file references, a minimal service."""
    api = Api(name)
    ver = rng.choice(["v1", "v1beta1", "v2"])
    pkg = f"vp.{name}.{ver}"
    P = "." + pkg
    dirp = pkg.replace(".", "/")
    # the shared file may carry the base name of a dependency file it imports and declare a type with the dependency
    # type's simple name (acme/x/v1/status.proto importing google/rpc/status.proto and declaring its own Status)
    twin = rng.choice([None, ("status", ".google.rpc.Status", "Status"), ("date", ".google.type.Date", "Date"),
                       ("timestamp", ".google.protobuf.Timestamp", "Timestamp"), ("latlng", ".google.type.LatLng", "LatLng")])
    f2 = File(f"{dirp}/{twin[0] if twin else 'shared_types'}.proto", pkg, deps=list(STD_DEPS))
    f = File(f"{dirp}/{name}.proto", pkg, deps=list(STD_DEPS) + [f2.pb.name])
    api.add(f2)
    api.add(f)
    tags = api.tags
    if twin:
        lt = f2.message(twin[2])
        lt.field("local_marker", "string")
        lt.field("n", "int32")
        job = f2.message("TwinHolder")
        job.field("theirs", twin[1])
        job.field("mine", P + "." + twin[2])
        job.field("theirs_list", twin[1], repeated=True)
        job.map("theirs_map", "string", twin[1])
        job.field("mine_list", P + "." + twin[2], repeated=True)
        tags.add("file-twin-of-dependency:" + twin[0])
    enums = [f2.enum("Color", "COLOR_UNSPECIFIED", "RED", "GREEN", "BLUE", numbers=[0, 3, 1, 7]),
             f.enum("Shape", "SHAPE_UNSPECIFIED", "ROUND")]
    shared = f2.message("Shared")
    shared.field("id", "string")
    shared.field("color", enums[0])
    shared.field("next", P + ".Shared")
    sn = shared.nested("Part")
    sn.field("n", "sint32")
    enums.append(shared.enum("Grade", "GRADE_UNSPECIFIED", "A", "B"))
    msgs = [P + ".Shared", P + ".Shared.Part"]
    allm = f.message("AllScalars")
    for t in SCALARS:
        allm.field("s_" + t, t)
        allm.field("r_" + t, t, repeated=True)
        allm.field("o_" + t, t, optional=True)
        tags.add("t:" + t)
    allm.field("o_msg", P + ".Shared", optional=True)
    allm.field("o_enum", enums[0], optional=True)
    for k in MAP_KEYS:
        allm.map("m_" + k, k, rng.choice(["string", "bytes", "double", "sint64", "bool", "float"] + enums + msgs))
        tags.add("mapkey:" + k)
    for i, t in enumerate(["string", "bytes", "sfixed64", enums[0], P + ".Shared", ".google.protobuf.Duration"]):
        allm.field(f"pick_{i}", t, oneof="pick")
    for i, t in enumerate(["bool", "double"]):
        allm.field(f"other_{i}", t, oneof="other_choice")
    for w in RES_WORDS[:14]:
        allm.field(w, rng.choice(["string", "int32", "bool", enums[1], P + ".Shared"]))
    tags.update(["reserved-field", "f:oneof", "f:optional", "f:map"])
    msgs.append(P + ".AllScalars")
    for i in range(nmsgs):
        m = f.message(f"Zoo{i}")
        rand_fields(rng, m, enums, msgs, rng.randint(3, 12), tags)
        cur, fq = m, P + f".Zoo{i}"
        for d in range(rng.randint(0, 3)):
            cur = cur.nested(f"N{d}")
            fq += f".N{d}"
            rand_fields(rng, cur, enums, msgs, rng.randint(1, 5), tags)
            if rng.random() < 0.5:
                enums.append(cur.enum(f"E{d}", f"E{d}_UNSPECIFIED", f"E{d}_ONE", f"E{d}_TWO"))
            msgs.append(fq)
            tags.add(f"nest:{d + 2}")
        if rng.random() < 0.5:
            m.field("loop", P + f".Zoo{i}", repeated=rng.random() < 0.5)
            tags.add("recursive")
        if i and rng.random() < 0.5:
            m.field("fwd", P + f".Zoo{min(nmsgs - 1, i + 1)}")   # forward (or self) reference
            tags.add("forward-ref")
        msgs.append(P + f".Zoo{i}")
    # enum values are wire/JSON names, not attributes: lower-case values that happen to be reserved words of the generator stay as they are
    lower = f.enum("LowerMode", "lower_mode_unspecified", "all", "any", "type", "next", "format")
    lm = f.message("LowerModes")
    lm.field("mode", lower)
    lm.field("modes", lower, repeated=True)
    lm.map("by_key", "string", lower)
    tags.add("lower-case-enum-values")
    # aliased enum values (allow_alias): two names of one number are two declared values; top level and nested
    alias = f.enum("JobState", "JOB_STATE_UNSPECIFIED", "STARTED", "RUNNING", "DONE", "FINISHED", numbers=[0, 1, 1, 2, 2], allow_alias=True)
    am = f.message("AliasHolder")
    nested_alias = am.enum("Phase", "PHASE_UNSPECIFIED", "INIT", "BOOT", numbers=[0, 1, 1], allow_alias=True)
    am.field("state", alias)
    am.field("states", alias, repeated=True)
    am.field("phase", nested_alias)
    am.map("by_key", "string", alias)
    tags.add("aliased-enum-values")
    # NESTED messages whose fields are named like modules the types module imports (well-known types, proto-plus itself, the
    # sibling file), each followed by a field that needs the shadowed module: the collision set must cover every nesting level
    sib = twin[0] if twin else "shared_types"
    sh = f.message("Shadows")
    sh.field("label", "string")
    l1 = sh.nested("Level1")
    l1.field("timestamp", "string")
    l1.field("at", ".google.protobuf.Timestamp")
    l1.field("proto", "string")
    l2 = l1.nested("Level2")
    l2.field("duration", "int32")
    l2.field("span", ".google.protobuf.Duration")
    l2.field(sib, "string")
    l2.field("shared", P + ".Shared")
    l2.field("later", ".google.protobuf.Timestamp", repeated=True)
    l1.field("deeper", P + ".Shadows.Level1.Level2")
    sh.field("level1", P + ".Shadows.Level1")
    tags.add("nested-fields-named-like-imported-modules")
    # real oneofs whose names start with an underscore (the idiom that preceded proto3 `optional`), before and between ordinary
    # oneofs and next to genuinely optional fields (whose synthetic oneofs have the same look)
    um = f.message("UnderscoreOneofs")
    um.field("nickname", "string", oneof="_nickname")
    um.field("email", "string", oneof="contact")
    um.field("phone", "int64", oneof="contact")
    um.field("text", "string", oneof="_value")
    um.field("number", "sint32", oneof="_value")
    um.field("shade", enums[0], oneof="_value")
    um.field("maybe", "int32", optional=True)
    um.field("last_a", "bool", oneof="last")
    um.field("last_b", P + ".Shared", oneof="last")
    tags.add("underscore-named-real-oneof")
    if rng.random() < 0.7:
        # a target file whose only use of another file's types (a sibling target file, a dependency file) is as map values
        f3 = File(f"{dirp}/map_only.proto", pkg, deps=["google/protobuf/timestamp.proto", "google/type/latlng.proto", f2.pb.name])
        api.add(f3)
        mo = f3.message("MapOnly")
        mo.field("title", "string")
        mo.map("shared_by_key", "string", P + ".Shared")
        mo.map("colors", "int32", enums[0])
        mo.map("times", "string", ".google.protobuf.Timestamp")
        inner = mo.nested("Cell")
        inner.map("places", "uint64", ".google.type.LatLng")
        mo.field("cell", P + ".MapOnly.Cell")
        tags.add("other-file-types-only-as-map-values")
    s = f.service("Zoo", host=f"{name}.googleapis.com")
    s.rpc("Echo", P + ".AllScalars", P + ".AllScalars")
    api.info.update(pkg=pkg, version=ver, ns=["vp"], name=name, host=f"{name}.googleapis.com")
    return api


# lower_snake names (style guide) plus the forms the generator explicitly sanitises: dots, keywords, control
# parameter names.  Hyphens and CamelCase file names are outside the style guide and are not generated (DESIGN §10).
ODD_FILE_NAMES = ["service", "file.with.dots", "import", "metadata", "retry", "timeout", "request",
                  "class", "types", "a_b_c", "x2", "pass", "v1.resources", "none", "async"]


def layout_api(rng, name):
    """Small APIs stressing package/file naming (C11): 0..3 namespace segments,
    version forms, 1..4 target files, dependency-only files, odd file names."""
    api = Api(name)
    tags = api.tags
    nns = rng.choice([0, 1, 1, 2, 3])
    ns = ["vp", "cloud", "x3"][:nns]
    ver = rng.choice(["v1", "v1beta1", "v1p1beta1", "v2alpha", None])
    pkg = ".".join(ns + [name] + ([ver] if ver else []))
    P = "." + pkg
    dirp = pkg.replace(".", "/")
    tags.update([f"ns:{nns}", "ver:" + (ver or "none")])
    # dependency-only package
    depf = None
    if rng.random() < 0.6:
        dpkg = f"vpdep.{name}dep.v1"
        depf = File(f"vpdep/{name}dep/v1/things.proto", dpkg, deps=[])
        dm = depf.message("Thing")
        dm.field("id", "string")
        depf.enum("Flavor", "FLAVOR_UNSPECIFIED", "SWEET")
        api.add(depf, target=False, synth=True)
        tags.add("dependency-file")
    # dependency-only files in ANCESTOR packages of the target package (google/cloud/common_resources.proto for a
    # google.cloud.<name>.<version> API): they are dependencies like any other
    anc = []
    if nns >= 1 and rng.random() < 0.6:
        for depth in range(nns, 0, -1):
            if depth != nns and rng.random() < 0.5:
                continue
            apkg = ".".join(ns[:depth])
            af = File(f"{apkg.replace('.', '/')}/ancestor_bits{depth}.proto", apkg, deps=[])
            am = af.message(f"AncestorBit{depth}")
            am.field("id", "string")
            af.enum(f"AncestorKind{depth}", f"ANCESTOR_KIND{depth}_UNSPECIFIED", f"AK{depth}_ONE")
            api.add(af, target=False, synth=True)
            anc.append((af, apkg, depth))
        tags.add("dependency-file-in-ancestor-package")
    nfiles = rng.randint(1, 4) if ver else 1
    names = rng.sample(ODD_FILE_NAMES, nfiles)
    # a dotted file name next to (and after) the file whose name equals its sanitised form: k8s_min.proto, then k8s.min.proto
    for dotted in ("file.with.dots", "v1.resources"):
        if dotted in names and rng.random() < 0.6:
            names.insert(names.index(dotted), dotted.replace(".", "_"))
            api.tags.add("dotted-file-name-after-its-sanitised-twin")
    files = []
    for i, fn in enumerate(names):
        deps = list(STD_DEPS) + ([depf.pb.name] if depf else []) + [a.pb.name for a, _, _ in anc] + [x.pb.name for x in files]
        f = File(f"{dirp}/{fn}.proto", pkg, deps=deps)
        tags.add("fname:" + fn)
        kind = rng.choice(["types", "types", "both", "service-only" if files else "both", "empty" if files else "types"])
        if i == nfiles - 1 and not any(x.pb.service for x in files):
            kind = "both"
        if kind in ("types", "both"):
            m = f.message(f"M{i}")
            m.field("name", "string")
            if depf and rng.random() < 0.7:
                m.field("thing", f".vpdep.{name}dep.v1.Thing")
                m.field("flavor", f"enum:.vpdep.{name}dep.v1.Flavor")
            for a, apkg, depth in anc:
                if rng.random() < 0.5:
                    m.field(f"bit{depth}", f".{apkg}.AncestorBit{depth}")
            if files and files[0].pb.message_type:
                m.field("prev", P + "." + files[0].pb.message_type[0].name)
            f.enum(f"E{i}", f"E{i}_UNSPECIFIED", f"E{i}_A")
        if kind in ("both", "service-only"):
            src = f if f.pb.message_type else files[0]
            mt = P + "." + (src.pb.message_type[0].name if src.pb.message_type else "M0")
            if not f.pb.message_type and not files[0].pb.message_type:
                m = f.message(f"Q{i}")
                m.field("name", "string")
                mt = P + f".Q{i}"
            s = f.service(f"Svc{i}", host=f"{name}.googleapis.com")
            s.rpc("Get", mt, mt, http={"get": "/v1/{name=things/*}"})
            s.rpc("Do", mt, ".google.protobuf.Empty")
        tags.add("filekind:" + kind)
        files.append(f)
        api.add(f)
    api.info.update(pkg=pkg, version=ver, ns=ns, name=name, host=f"{name}.googleapis.com")
    return api


def order_api(rng, name, same_short=False):
    """Order-sensitive shapes (C10): many resources and references, equal sort
    keys, many imports, several services, several retryable codes, LRO/paged."""
    api = conventional(rng, name, {"version": "v1", "ns": ["vp"], "nfiles": 2, "exotic": True, "streams": True,
                                   "foreign": rng.random() < 0.5})
    tags = api.tags
    pkg = api.info["pkg"]
    P = "." + pkg
    f = [x for x in api.files if x.pb.name.endswith(f"/{name}.proto")][0]
    tf = [x for x in api.files if x.pb.name.endswith("_types.proto")][0]
    # many resources, some only as file-level definitions, referenced from one request
    doms = ["a", "b", "c", "zeta", "eta"]
    refs = []
    n = rng.randint(4, 9)
    for i in range(n):
        dom = rng.choice(doms)
        short = rng.choice(["Foo", "Bar", "Baz", "Qux", "Quux"]) if not same_short else rng.choice(["Foo", "Foo", "Bar"])
        t = f"{dom}.googleapis.com/{short}"
        if t in refs:
            continue
        pats = [f"{dom}s/{{{dom}}}/{short.lower()}s/{{{short.lower()}}}"]
        if rng.random() < 0.4:
            pats.append(f"folders/{{folder}}/{short.lower()}s/{{{short.lower()}}}")
        if rng.random() < 0.5:
            f.resource_definition(t, *pats)
        else:
            m = tf.message(f"Res{i}{short}")
            m.resource(t, *pats)
            m.field("name", "string")
        refs.append(t)
    shorts = [t.split("/")[1] for t in refs]
    if len(set(shorts)) < len(shorts):
        tags.add("equal-resource-short-names")
    q = f.message("LinkRequest")
    q.field("name", "string", required=True)
    # value-like fields whose sample / test / docstring mock values must not come from a clock or a random source
    q.field("idempotency_key", "string", required=True, uuid4=True)
    q.field("request_id", "string", uuid4=True)
    q.field("as_of", ".google.protobuf.Timestamp", required=True)
    order = list(refs)
    rng.shuffle(order)
    for i, t in enumerate(order):
        q.field(f"ref_{i}", "string", ref=t) if rng.random() < 0.7 else q.field(f"ref_{i}", "string", child_ref=t)
    for i in range(rng.randint(2, 5)):
        q.field(f"wkt_{i}", ".google.protobuf." + rng.choice(WKT))
    q.field("date", ".google.type.Date")
    q.field("pos", ".google.type.LatLng")
    q.field("status", ".google.rpc.Status")
    svc = None
    for fpb in [f.pb]:
        svc = build.Svc(fpb.service[0], f)
    svc.rpc("Link", P + ".LinkRequest", P + ".LinkRequest", http={"post": "/v1/{name=links/*}:link"}, body="*", sigs=["name"])
    rparams = [("name", "{routing_id=links/*}/**"), ("name", "{routing_id=links/*/subs/*}/**"), ("ref_0", "{profile=**}"), ("ref_1", ""),
               ("name", "{database=links/*}"), ("ref_0", "{routing_id=**}")]
    rng.shuffle(rparams)
    svc.rpc("RouteLink", P + ".LinkRequest", P + ".LinkRequest", http={"post": "/v1/{name=links/*}:route"}, body="*",
            routing=[p for p in rparams[:rng.randint(3, 6)] if p[0] in ("name",) or len(order) > int(p[0][-1])])
    tags.add("multi-parameter-routing")
    # list methods whose request has BOTH spellings of the page-size field, only one of them of an accepted type: whether the
    # method is paginated must not depend on which spelling happens to be looked at first
    for i, (mr_t, ps_t) in enumerate(rng.sample([(".google.protobuf.Int64Value", "int32"), ("int32", "string"), ("string", "int32"),
                                                  (".google.protobuf.UInt32Value", "bool"), ("double", "int64")], 2)):
        lq = f.message(f"ListBoth{i}Request")
        lq.field("parent", "string")
        lq.field("max_results", mr_t)
        lq.field("page_size", ps_t)
        lq.field("page_token", "string")
        lo = f.message(f"ListBoth{i}Response")
        lo.field("links", P + ".LinkRequest", repeated=True)
        lo.field("next_page_token", "string")
        svc.rpc(f"ListBoth{i}", P + f".ListBoth{i}Request", P + f".ListBoth{i}Response", http={"get": f"/v1/{{parent=links/*}}/both{i}"})
    tags.add("both-page-size-spellings")
    # retry config with many codes in shuffled order
    codes = ["UNAVAILABLE", "DEADLINE_EXCEEDED", "ABORTED", "INTERNAL", "RESOURCE_EXHAUSTED", "UNKNOWN", "CANCELLED"]
    names = []
    for fb in api.files:
        if fb.pb.name in api.targets:
            for s in fb.pb.service:
                for m in s.method:
                    names.append({"service": f"{pkg}.{s.name}", "method": m.name})
    rng.shuffle(names)
    cfgs = []
    for chunk in (names[: len(names) // 2], names[len(names) // 2:]):
        if not chunk:
            continue
        cs = rng.sample(codes, rng.randint(2, 6))
        cfgs.append({"name": chunk, "timeout": f"{rng.randint(5, 90)}s",
                     "retryPolicy": {"initialBackoff": "0.1s", "maxBackoff": "10s", "backoffMultiplier": 1.3,
                                     "retryableStatusCodes": cs}})
    api.aux["retry-config"] = ("retry.json", json.dumps({"methodConfig": cfgs}, indent=1))
    tags.add("retry-config")
    # mixins whose modules the API's own RPCs also use: the same import reaches one block in several spellings
    if rng.random() < 0.8:
        f.pb.dependency.extend(["google/cloud/location/locations.proto"] +
                               ([] if "google/iam/v1/policy.proto" in f.pb.dependency else ["google/iam/v1/iam_policy.proto", "google/iam/v1/policy.proto"]))
        api.dep_mods += ["google.cloud.location.locations_pb2", "google.iam.v1.iam_policy_pb2", "google.iam.v1.policy_pb2"]
        svc.rpc("WhereIs", P + ".LinkRequest", ".google.cloud.location.Location", http={"get": "/v1/{name=links/*}:where"})
        svc.rpc("WhoCan", P + ".LinkRequest", ".google.iam.v1.Policy", http={"get": "/v1/{name=links/*}:who"})
        svc.rpc("LongLink", P + ".LinkRequest", ".google.longrunning.Operation", http={"post": "/v1/{name=links/*}:long"}, body="*",
                lro=("LinkRequest", "LinkRequest"))
        mix = rng.sample(["locations", "iam", "operations"], rng.randint(1, 3))
        # a mixin rule with several additional bindings (one per resource collection plus a catch-all): their ORDER decides which URL a
        # call is sent to, so it must be the order of the YAML
        many = []
        for m_ in mix:
            sel, r0 = MIXIN_RULES[m_][1][0]
            verb = [k for k in r0 if k in ("get", "post", "delete")][0]
            extra_b = [{verb: r0[verb].replace("projects/*", coll + "/*"), **({"body": r0["body"]} if "body" in r0 else {})}
                       for coll in ("organizations", "folders", "billingAccounts", "tenants")]
            extra_b.append({verb: "/v1beta1/{" + ("resource" if m_ == "iam" else "name") + "=**}" + (":getIamPolicy" if m_ == "iam" else ""),
                            **({"body": r0["body"]} if "body" in r0 else {})})
            many.append({"selector": sel, **r0, "additional_bindings": extra_b})
        api.aux["service-yaml"] = ("svc.yaml", service_yaml(api, mixins=mix, extra_rules=many))
        tags.add("mixin-rule-with-many-additional-bindings")
        tags.update("mixin:" + m for m in mix)
    api.options = ["transport=grpc+rest", "metadata", "autogen-snippets"]
    return api


REQ_SCALARS = list(SCALARS)


def rest_api(rng, name, numeric=False, nmethods=10):
    """HTTP-binding heavy API (C04): every verb, additional bindings, nested
    and multi-segment path variables, '*'/field/absent body, required fields of
    every scalar kind in query position, unbound and streaming RPCs."""
    api = Api(name)
    tags = api.tags
    ver = "v1"
    pkg = f"vp.{name}.{ver}"
    P = "." + pkg
    f = File(f"vp/{name}/{ver}/{name}.proto", pkg, deps=list(STD_DEPS) + ["google/iam/v1/iam_policy.proto", "google/iam/v1/policy.proto"])
    api.dep_mods += ["google.iam.v1.iam_policy_pb2", "google.iam.v1.policy_pb2"]
    api.add(f)
    color = f.enum("Color", "COLOR_UNSPECIFIED", "RED", "GREEN", "BLUE", numbers=[0, 1, 2, 5])
    pay = f.message("Payload")
    pay.field("title", "string")
    pay.field("count", "int64")
    pay.field("color", color)
    pay.field("ratio", "double")
    pay.field("blob", "bytes")
    pay.field("tags", "string", repeated=True)
    pay.field("colors", color, repeated=True)
    pay.map("labels", "string", "string")
    pay.map("by_num", "int32", P + ".Leaf")
    pay.field("leaf", P + ".Leaf")
    pay.field("leaves", P + ".Leaf", repeated=True)
    pay.field("when", ".google.protobuf.Timestamp")
    pay.field("extra", ".google.protobuf.Struct")
    pay.field("opt_flag", "bool", optional=True)
    pay.field("class", "string")
    pay.field("kind_a", "string", oneof="kind")
    pay.field("kind_b", "sint32", oneof="kind")
    leaf = f.message("Leaf")
    leaf.field("id", "string")
    leaf.field("n", "int32")
    leaf.field("color", color)
    leaf.field("o", "string", optional=True)
    sub = f.message("Sub")
    sub.field("id", "string")
    sub.field("kind", "string")
    sub.field("num", "int32")
    sub.field("leaf", P + ".Leaf")
    sub.field("color", color)
    sub.field("notes", "string", repeated=True)
    resp = f.message("Reply")
    resp.field("name", "string")
    resp.field("payload", P + ".Payload")
    resp.field("color", color)
    resp.field("big", "uint64")
    resp.field("items", P + ".Leaf", repeated=True)
    s = f.service("Rest", host=f"{name}.googleapis.com")
    shapes = ["get_name", "list_parent", "create_body_field", "update_nested", "act_star", "delete", "put_multi",
              "two_vars", "addl_get", "addl_body_mix", "addl_body_differs_field_then_star", "addl_body_differs_star_then_field", "int_var", "star_nested"]
    rng.shuffle(shapes)
    # google.api.http puts no restriction on which verbs carry a body: DELETE (and GET) bindings with one are always among the drawn
    shapes = ["delete_star_body", "delete_field_body"] + shapes
    if rng.random() < 0.5:
        shapes.insert(rng.randint(0, 4), "get_field_body")
    for i, shape in enumerate(shapes[:nmethods]):
        q = f.message(f"Req{i}")
        # path-bound fields are usually annotated REQUIRED in real APIs
        q.field("name", "string", required=rng.random() < 0.5)
        q.field("parent", "string", required=rng.random() < 0.5)
        q.field("sub", P + ".Sub", required=rng.random() < 0.3)
        q.field("payload", P + ".Payload", required=rng.random() < 0.3)
        q.field("part_num", rng.choice(["int32", "int64", "uint32"]), required=rng.random() < 0.5)
        # query-position fields
        nreq = rng.randint(0, 4)
        for j, t in enumerate(rng.sample(REQ_SCALARS, nreq)):
            q.field(f"req_{t}", t, required=True)
            tags.add("required:" + t)
        if rng.random() < 0.6:
            # REQUIRED and proto3 `optional` at once (the Compute shape): still required, still re-sent when left unset
            for t in rng.sample(["int32", "string", "bool", "uint64"], rng.randint(1, 2)):
                q.field(f"oreq_{t}", t, required=True, optional=True)
                tags.add("required-optional:" + t)
        for j, t in enumerate(rng.sample(REQ_SCALARS, rng.randint(1, 5))):
            q.field(f"q_{t}", t)
        if rng.random() < 0.7:
            q.field("q_color", color, required=rng.random() < 0.3)
        if rng.random() < 0.5:
            q.field("q_colors", color, repeated=True)
        if rng.random() < 0.5:
            q.field("q_strs", "string", repeated=True)
        if rng.random() < 0.5:
            q.field("q_ints", rng.choice(["int32", "uint64", "sint64"]), repeated=True)
        if rng.random() < 0.6:
            q.field("q_leaf", P + ".Leaf")
        if rng.random() < 0.5:
            q.field("q_opt", rng.choice(["string", "int32", "bool", "double"]), optional=True)
        if rng.random() < 0.5:
            q.field("q_when", ".google.protobuf.Timestamp")
        if rng.random() < 0.4:
            q.field("q_ttl", ".google.protobuf.Duration")
        if rng.random() < 0.4:
            q.field("q_mask", ".google.protobuf.FieldMask")
        if rng.random() < 0.4:
            q.field("q_wrapped", ".google.protobuf." + rng.choice(["Int32Value", "StringValue", "BoolValue", "DoubleValue", "UInt64Value"]))
        if rng.random() < 0.5:
            q.field("type", "string", required=rng.random() < 0.6)
        if rng.random() < 0.4:
            q.field("format", rng.choice(["int32", "string", "bool"]), required=rng.random() < 0.6)
        if rng.random() < 0.3:
            q.field("class", color, required=rng.random() < 0.5)
        if rng.random() < 0.3:
            q.field("trailing_", "string", required=True)
        out = rng.choice([P + ".Reply", P + ".Reply", P + ".Payload", ".google.protobuf.Empty"])
        kw = {}
        if shape == "get_name":
            kw = dict(http={"get": f"/{ver}/{{name=things/*}}"})
        elif shape == "list_parent":
            kw = dict(http={"get": f"/{ver}/{{parent=projects/*}}/things"})
        elif shape == "create_body_field":
            kw = dict(http={"post": f"/{ver}/{{parent=projects/*}}/things"}, body="payload")
        elif shape == "update_nested":
            kw = dict(http={"patch": f"/{ver}/{{sub.id=things/*}}"}, body="sub")
        elif shape == "act_star":
            kw = dict(http={"post": f"/{ver}/{{name=things/*}}:act"}, body="*")
        elif shape == "delete":
            kw = dict(http={"delete": f"/{ver}/{{name=things/*/parts/*}}"})
        elif shape == "delete_star_body":
            kw = dict(http={"delete": f"/{ver}/{{name=things/*}}:purge"}, body="*")
        elif shape == "delete_field_body":
            kw = dict(http={"delete": f"/{ver}/{{name=things/*/parts/*}}:drop"}, body="payload")
        elif shape == "get_field_body":
            kw = dict(http={"get": f"/{ver}/{{name=things/*}}:probe"}, body="payload")
        elif shape == "put_multi":
            kw = dict(http={"put": f"/{ver}/{{name=things/*/files/**}}"}, body="payload")
        elif shape == "two_vars":
            kw = dict(http={"get": f"/{ver}/{{parent=projects/*}}/things/{{sub.kind}}"})
        elif shape == "addl_get":
            kw = dict(http={"get": f"/{ver}/{{name=things/*}}:peek"},
                      extra=[({"get": f"/{ver}/{{name=organizations/*/things/*}}:peek"}, None),
                             ({"get": f"/{ver}/{{parent=folders/*}}/peek"}, None)])
        elif shape == "addl_body_mix":
            kw = dict(http={"post": f"/{ver}/{{name=things/*}}:mix"}, body="*",
                      extra=[({"post": f"/{ver}/{{name=organizations/*/things/*}}:mix"}, "*"),
                             ({"put": f"/{ver}/{{parent=folders/*}}/mix"}, "*")])
        elif shape == "addl_body_differs_field_then_star":
            # each binding is transcoded with its OWN body
            kw = dict(http={"post": f"/{ver}/{{parent=projects/*}}/stuff"}, body="payload",
                      extra=[({"post": f"/{ver}/{{parent=folders/*}}/stuff"}, "*")])
        elif shape == "addl_body_differs_star_then_field":
            kw = dict(http={"patch": f"/{ver}/{{name=things/*}}:rev"}, body="*",
                      extra=[({"patch": f"/{ver}/{{name=organizations/*/things/*}}:rev"}, "payload")])
        elif shape == "int_var":
            kw = dict(http={"get": f"/{ver}/{{parent=projects/*}}/parts/{{part_num}}"})
        elif shape == "star_nested":
            kw = dict(http={"post": f"/{ver}/{{sub.id=things/*}}/{{sub.kind=kinds/*}}:go"}, body="*")
        tags.add("shape:" + shape)
        s.rpc(f"Do{i}", P + f".Req{i}", out, **kw)
    # requests WITHOUT any REQUIRED field (no table of required defaults is emitted for them), one per body kind
    for j, (verb, tail, body) in enumerate([("get", "", None), ("post", ":paint", "*"), ("patch", ":fix", "payload")]):
        q = f.message(f"Free{j}")
        q.field("name", "string")
        q.field("payload", P + ".Payload")
        q.field("q_color", color)
        q.field("q_colors", color, repeated=True)
        q.field("q_str", "string")
        q.field("q_leaf", P + ".Leaf")
        s.rpc(f"Free{j}", P + f".Free{j}", P + ".Reply", http={verb: f"/{ver}/{{name=frees/*}}{tail}"}, **({"body": body} if body else {}))
    tags.add("request-without-required-fields")
    # request and reply of different kinds: a type of another package (a *_pb2 class) on one side only
    s.rpc("ForeignIn", ".google.iam.v1.GetIamPolicyRequest", P + ".Reply", http={"get": f"/{ver}/{{resource=things/*}}:readPolicy"})
    s.rpc("ForeignInBody", ".google.iam.v1.TestIamPermissionsRequest", P + ".Payload", http={"post": f"/{ver}/{{resource=things/*}}:probe"}, body="*")
    s.rpc("ForeignOut", P + ".Free0", ".google.iam.v1.Policy", http={"get": f"/{ver}/{{name=frees/*}}:policy"})
    s.rpc("ForeignOutBody", P + ".Free1", ".google.iam.v1.TestIamPermissionsResponse", http={"post": f"/{ver}/{{name=frees/*}}:allowed"}, body="*")
    tags.add("request-and-reply-of-different-package-kinds")
    # unbound + streaming
    s.rpc("Unbound", P + ".Req0", P + ".Reply")
    s.rpc("Upload", P + ".Req0", P + ".Reply", cs=True, http={"post": f"/{ver}/{{name=things/*}}:upload"}, body="*")
    s.rpc("Tail", P + ".Req0", P + ".Leaf", ss=True, http={"get": f"/{ver}/{{name=things/*}}:tail"})
    tags.update(["unbound-rpc", "client-streaming", "server-streaming"])
    api.options = ["transport=rest"] + (["rest-numeric-enums"] if numeric else [])
    api.info.update(pkg=pkg, version=ver, ns=["vp"], name=name, host=f"{name}.googleapis.com")
    return api


def flat_api(rng, name):
    """method_signature heavy API (C05)."""
    api = Api(name)
    tags = api.tags
    ver = "v1"
    pkg = f"vp.{name}.{ver}"
    P = "." + pkg
    f = File(f"vp/{name}/{ver}/{name}.proto", pkg, deps=list(STD_DEPS) + ["google/iam/v1/iam_policy.proto", "google/iam/v1/policy.proto"])
    api.dep_mods += ["google.iam.v1.iam_policy_pb2", "google.iam.v1.policy_pb2"]
    api.add(f)
    color = f.enum("Color", "COLOR_UNSPECIFIED", "RED", "GREEN")
    leaf = f.message("Leaf")
    leaf.field("id", "string")
    leaf.field("n", "int32")
    leaf.field("color", color)
    leaf.field("opt", "string", optional=True)
    sub = f.message("Sub")
    sub.field("id", "string", required=True)     # REQUIRED below a message that is not: order of application matters (see sig_sets)
    sub.field("num", "sint64")
    sub.field("flag", "bool")
    sub.field("leaf", P + ".Leaf")
    sub.field("kinds", "string", repeated=True)
    sub.field("deep", P + ".Sub.Deep")
    # dotted signatures ending in a map / list / enum / well-known type; the request has top-level fields of the same leaf names
    sub.map("labels", "string", "string")
    sub.map("by_num", "int32", P + ".Leaf")
    sub.field("leaves", P + ".Leaf", repeated=True)
    sub.field("color", color)
    sub.field("when", ".google.protobuf.Timestamp")
    deep = sub.nested("Deep")
    deep.field("code", "uint32")
    deep.field("label", "string")
    out = f.message("Reply")
    out.field("ok", "bool")
    s = f.service("Flat", host=f"{name}.googleapis.com")
    pools = {
        "scalar": [("name", "string"), ("count", "int32"), ("ratio", "double"), ("flag", "bool"), ("blob", "bytes"),
                   ("big", "uint64"), ("neg", "sint32"), ("fx", "fixed64"), ("score", "float")],
        "optional": [("opt_count", "int32"), ("opt_name", "string"), ("opt_flag", "bool"), ("opt_ratio", "double")],
        "reserved": [("class", "string"), ("type", "int32"), ("from", "string"), ("filter", "string"), ("max", "int64"), ("format", "bool")],
    }
    sig_sets = [
        [["name"]],
        [["name", "count"]],
        [["name"], ["name", "payload"], ["payload", "count"]],
        [["sub.id", "sub.num"]],
        [["sub.deep.code", "name"]],
        [["tags"]],
        [["labels", "name"]],
        [["leaf", "leaves"]],
        [["color", "colors"]],
        [["opt_count", "opt_name", "opt_flag"]],
        [["class", "type"]],
        [["from", "filter", "max", "format"]],
        [["name", "count", "ratio", "flag", "blob"]],
        [["sub.leaf", "big", "neg"]],
        [["by_num", "fx", "score"]],
        [[]],
        [["sub.kinds", "opt_ratio"]],
        [["when", "mask"]],
        [["name", "instances", "parameters"]],
        [["extra_struct", "ttl"]],
        [["wrapped_num", "wrapped_text", "values_list"]],
        [["anything", "name"]],
        [["sub.labels", "name"]],
        [["sub.leaves", "sub.deep.label"]],
        [["sub.by_num"], ["sub.color", "sub.when"]],
        # REQUIRED fields mentioned after fields that are not: parameters and assignments follow the declared order
        [["name", "count"], ["ratio", "count", "blob"]],
        [["sub"], ["sub", "sub.id", "name"]],
        # the no-argument overload ("") declared before / between the others: it contributes nothing and ends nothing
        [[], ["name", "flag"]],
        [["name"], [], ["name", "opt_name", "tags"]],
    ]
    dotted_containers = sig_sets[-7:-4]
    required_late = sig_sets[-4:]
    rng.shuffle(sig_sets)
    chosen = sig_sets[:rng.randint(8, 12)]
    if not any(x in chosen for x in dotted_containers):
        chosen.append(rng.choice(dotted_containers))
    for x in required_late:
        if x not in chosen:
            chosen.append(x)
    for i, sigs in enumerate(chosen):
        q = f.message(f"Req{i}")
        for n, t in pools["scalar"]:
            q.field(n, t, required=n in ("count", "blob"))
        for n, t in pools["optional"]:
            q.field(n, t, optional=True)
        for n, t in pools["reserved"]:
            q.field(n, t)
        q.field("payload", P + ".Leaf")
        q.field("sub", P + ".Sub")
        q.field("leaf", P + ".Leaf")
        q.field("leaves", P + ".Leaf", repeated=True)
        q.field("tags", "string", repeated=True)
        q.field("color", color)
        q.field("colors", color, repeated=True)
        q.map("labels", "string", "string")
        q.map("by_num", "int32", P + ".Leaf")
        q.field("when", ".google.protobuf.Timestamp")
        q.field("mask", ".google.protobuf.FieldMask")
        q.field("instances", ".google.protobuf.Value", repeated=True)
        q.field("parameters", ".google.protobuf.Value")
        q.field("extra_struct", ".google.protobuf.Struct")
        q.field("ttl", ".google.protobuf.Duration")
        q.field("wrapped_num", ".google.protobuf.Int64Value")
        q.field("wrapped_text", ".google.protobuf.StringValue")
        q.field("values_list", ".google.protobuf.ListValue")
        q.field("anything", ".google.protobuf.Any")
        q.field("untouched", "string")
        # google.api.method_signature is a comma-separated list; blanks after the commas are legal and common in hand-written protos
        sep = ", " if i % 3 == 1 else ","
        s.rpc(f"Call{i}", P + f".Req{i}", P + ".Reply", sigs=[sep.join(x) for x in sigs])
        if sep != ",":
            tags.add("signature-with-blanks")
        for x in sigs:
            for p in x:
                tags.add("sig:" + ("dotted" if "." in p else p))
        tags.add(f"nsigs:{len(sigs)}")
    # a flattened MAP whose value type lives in another target file (only the synthesised entry message is in the request's own file)
    fcom = File(f"vp/{name}/{ver}/common_tags.proto", pkg, deps=list(STD_DEPS))
    api.add(fcom)
    f.pb.dependency.append(fcom.pb.name)
    tg = fcom.message("FarTag")
    tg.field("key", "string")
    tg.field("weight", "int32")
    mq = f.message("TagRequest")
    mq.field("name", "string")
    mq.map("far_tags", "string", P + ".FarTag")
    s.rpc("TagAll", P + ".TagRequest", P + ".Reply", sigs=["name,far_tags"])
    tags.add("flattened-map-with-value-type-from-another-file")
    # a request type that lives in <word>.proto and has a field named <word> (dialogflow's session.proto / `session`): the flattened
    # parameter shadows the module the method body needs, whatever the spelling of the signature
    fsess = File(f"vp/{name}/{ver}/session.proto", pkg, deps=list(STD_DEPS))
    api.add(fsess)
    f.pb.dependency.append(fsess.pb.name)
    dq = fsess.message("DetectRequest")
    dq.field("parent", "string")
    dq.field("session", "string")
    dq.field("text", "string")
    s.rpc("Detect", P + ".DetectRequest", P + ".Reply", sigs=["parent, session, text"])
    s.rpc("EndSession", P + ".DetectRequest", P + ".Reply", sigs=["session"])
    tags.add("flattened-field-named-like-request-module")
    # requests from a dependency package (pb2 classes): non-primitive fields are not offered
    s.rpc("SetPolicy", ".google.iam.v1.SetIamPolicyRequest", ".google.iam.v1.Policy", sigs=["resource"])
    s.rpc("TestPerms", ".google.iam.v1.TestIamPermissionsRequest", ".google.iam.v1.TestIamPermissionsResponse", sigs=["resource,permissions"])
    tags.add("foreign-request")
    api.options = ["transport=grpc", "autogen-snippets=false"]
    api.info.update(pkg=pkg, version=ver, ns=["vp"], name=name, host=f"{name}.googleapis.com")
    return api


ROUTING_FORMS = [
    ("plain", [("name", "")]),
    ("star", [("app_profile_id", "{routing_id=*}")]),
    ("dstar", [("name", "{name=**}")]),
    ("prefix_capture_suffix", [("table_name", "{table_location=projects/*/instances/*}/**")]),
    ("mid_capture", [("table_name", "projects/*/{instance_id=instances/*}/**")]),
    ("shared_key", [("table_name", "{routing_id=projects/*}/**"), ("table_name", "{routing_id=projects/*/instances/*}/**"),
                    ("app_profile_id", "{routing_id=**}")]),
    ("shared_key_rev", [("app_profile_id", "{routing_id=**}"), ("table_name", "{routing_id=projects/*}/**")]),
    ("nested_tmpl", [("sub.id", "{sub_id=things/*}")]),
    ("nested_plain", [("sub.region", "")]),
    ("multi_key", [("name", "{project=projects/*}/**"), ("app_profile_id", "{profile=*}"), ("sub.region", "")]),
    ("exact_no_tail", [("table_name", "{project=projects/*}")]),
    ("exact_two_seg", [("table_name", "{inst=projects/*/instances/*}")]),
    ("literal_suffix", [("table_name", "{tbl=projects/*/tables/*}/rows")]),
    ("whole_dstar_tail", [("name", "{database=projects/*/databases/*}/documents/*/**")]),
    # the bare form {key} is short for {key=*}
    ("bare_key_mid", [("table_name", "projects/*/{instance_id}/**")]),
    ("bare_key_whole", [("app_profile_id", "{routing_id}")]),
    # reserved-word fields: read from the suffixed attribute, sent under the ORIGINAL name (the key of a template-less parameter is its field path)
    ("plain_reserved", [("type", "")]),
    ("nested_plain_reserved", [("sub.format", ""), ("type", "{kind=kinds/*}")]),
]
ROUTING_FORMS_FIXED = [("empty_annotation", [])]
IMPLICIT_FORMS = [
    ("one", {"get": "/v1/{name=things/*}"}, None),
    ("two", {"get": "/v1/{parent=projects/*}/things/{thing_id}"}, None),
    ("dotted", {"patch": "/v1/{sub.id=things/*}"}, "sub"),
    ("dotted_two", {"post": "/v1/{sub.id=things/*}/regions/{sub.region}"}, "*"),
    ("reserved", {"get": "/v1/{type=kinds/*}/x/{filter}"}, None),
    ("int_var", {"get": "/v1/{parent=projects/*}/shards/{shard}"}, None),
    ("dstar", {"delete": "/v1/{name=things/**}"}, None),
    ("verb_order", {"post": "/v1/{table_name=projects/*/tables/*}:mutate"}, "*"),
    # the primary binding may use the `custom` pattern (HEAD, OPTIONS, ...): its path template's variables count like any other's
    ("custom_verb", {"custom": ("HEAD", "/v1/{name=things/*}")}, None),
    ("custom_verb_two", {"custom": ("OPTIONS", "/v1/{parent=projects/*}/things/{thing_id}")}, None),
]


def routing_api(rng, name):
    """google.api.routing / implicit header shapes (C06)."""
    api = Api(name)
    tags = api.tags
    ver = "v1"
    pkg = f"vp.{name}.{ver}"
    P = "." + pkg
    f = File(f"vp/{name}/{ver}/{name}.proto", pkg, deps=list(STD_DEPS))
    api.add(f)
    sub = f.message("Sub")
    sub.field("id", "string")
    sub.field("region", "string")
    sub.field("format", "string")
    rq = f.message("Req")
    rq.field("anchor", "string")
    rq.field("name", "string")
    rq.field("table_name", "string")
    rq.field("app_profile_id", "string")
    rq.field("sub", P + ".Sub")
    rq.field("parent", "string")
    rq.field("thing_id", "string")
    rq.field("type", "string")
    rq.field("filter", "string")
    rq.field("shard", "int64")
    rq.field("note", "string")
    rq.field("page_size", "int32")
    rq.field("page_token", "string")
    rp = f.message("Reply")
    rp.field("ok", "bool")
    prp = f.message("PagedReply")
    prp.field("items", "string", repeated=True)
    prp.field("next_page_token", "string")
    s = f.service("Router", host=f"{name}.googleapis.com")
    forms = list(ROUTING_FORMS)
    rng.shuffle(forms)
    for i, (label, params) in enumerate(forms[:rng.randint(8, len(forms))]):
        s.rpc(f"Explicit{i}", P + ".Req", P + ".Reply", http={"post": "/v1/{anchor=anchors/*}:go" + str(i)}, body="*", routing=params)
        tags.add("routing:" + label)
        api.info.setdefault("explicit", {})[f"Explicit{i}"] = label
    imps = list(IMPLICIT_FORMS)
    rng.shuffle(imps)
    imps = imps[:rng.randint(5, len(imps))]
    if not any("custom" in h_ for _, h_, _b in imps):
        imps.append(next(x for x in IMPLICIT_FORMS if "custom" in x[1]))
    for i, (label, http, body) in enumerate(imps):
        s.rpc(f"Implicit{i}", P + ".Req", P + ".Reply", http=http, body=body)
        tags.add("implicit:" + label)
        api.info.setdefault("implicit", {})[f"Implicit{i}"] = label
    # explicit routing wins over the HTTP rule
    s.rpc("Both", P + ".Req", P + ".Reply", http={"get": "/v1/{name=things/*}"}, routing=[("app_profile_id", "")])
    s.rpc("NoHeader", P + ".Req", P + ".Reply")
    # only variables of the PRIMARY path template count: a primary path without variables sends no header, whatever the
    # additional bindings contain
    s.rpc("PrimaryPlain", P + ".Req", P + ".Reply", http={"get": "/v1/things"},
          extra=[({"get": "/v1/{name=projects/*}/things"}, None), ({"get": "/v1/{table_name=tables/*}/things/{sub.region}"}, None)])
    api.info.setdefault("implicit", {})["PrimaryPlain"] = "primary_without_variables"
    tags.add("implicit:primary_without_variables")
    # AIP-4222: an empty annotation is acceptable and means that no routing header is sent, although the HTTP rule has variables
    s.rpc("Disabled", P + ".Req", P + ".Reply", http={"get": "/v1/{name=things/*}/parts/{table_name}"}, routing=[])
    api.info.setdefault("explicit", {})["Disabled"] = "empty_annotation"
    tags.add("routing:empty_annotation")
    # paged methods: the header is computed once by the client method and must accompany every further page the pager fetches
    s.rpc("ListImplicit", P + ".Req", P + ".PagedReply", http={"get": "/v1/{parent=shelves/*}/items"})
    api.info.setdefault("implicit", {})["ListImplicit"] = "paged_implicit"
    s.rpc("ListExplicit", P + ".Req", P + ".PagedReply", http={"get": "/v1/{anchor=anchors/*}/items"},
          routing=[("table_name", "{shelf=shelves/*}/**"), ("app_profile_id", "{profile=*}")])
    api.info.setdefault("explicit", {})["ListExplicit"] = "paged_explicit"
    api.info["paged"] = ["ListImplicit", "ListExplicit"]
    tags.update(["implicit:paged_implicit", "routing:paged_explicit"])
    api.options = ["transport=grpc+rest", "autogen-snippets=false"]
    api.info.update(pkg=pkg, version=ver, ns=["vp"], name=name, host=f"{name}.googleapis.com")
    return api


PAGE_REQ_SHAPES = {
    # label: [(name, type)] size/token part of the request
    "std": [("page_size", "int32"), ("page_token", "string")],
    "size_int64": [("page_size", "int64"), ("page_token", "string")],
    "size_uint32": [("page_size", "uint32"), ("page_token", "string")],
    "size_sint32": [("page_size", "sint32"), ("page_token", "string")],
    "size_fixed64": [("page_size", "fixed64"), ("page_token", "string")],
    "legacy_int": [("max_results", "int32"), ("page_token", "string")],
    "legacy_i32value": [("max_results", ".google.protobuf.Int32Value"), ("page_token", "string")],
    "legacy_u32value": [("max_results", ".google.protobuf.UInt32Value"), ("page_token", "string")],
    "legacy_string": [("max_results", "string"), ("page_token", "string")],
    "legacy_i64value": [("max_results", ".google.protobuf.Int64Value"), ("page_token", "string")],
    "size_string": [("page_size", "string"), ("page_token", "string")],
    "size_double": [("page_size", "double"), ("page_token", "string")],
    "size_bool": [("page_size", "bool"), ("page_token", "string")],
    "no_token": [("page_size", "int32")],
    "token_bytes": [("page_size", "int32"), ("page_token", "bytes")],
    "token_int": [("page_size", "int32"), ("page_token", "int32")],
    "no_size": [("page_token", "string")],
    "token_first": [("page_token", "string"), ("page_size", "int32")],
}
PAGE_RESP_SHAPES = ["items_msg", "token_first", "two_repeated", "scalars", "map_items", "no_repeated", "no_token", "token_int",
                    "items_other_file", "enums", "token_bytes", "extra_fields", "decl_order"]


def paging_api(rng, name):
    """Shapes around the AIP-4233 field rules (C07)."""
    api = Api(name)
    tags = api.tags
    ver = "v1"
    pkg = f"vp.{name}.{ver}"
    P = "." + pkg
    tf = File(f"vp/{name}/{ver}/{name}_items.proto", pkg, deps=list(STD_DEPS))
    f = File(f"vp/{name}/{ver}/{name}.proto", pkg, deps=list(STD_DEPS) + [tf.pb.name])
    api.add(tf)
    api.add(f)
    far = tf.message("FarItem")
    far.field("uid", "string")
    far.field("rank", "int32")
    color = tf.enum("Color", "COLOR_UNSPECIFIED", "RED", "GREEN", "BLUE")
    item = f.message("Item")
    item.field("uid", "string")
    item.field("weight", "double")
    item.field("far", P + ".FarItem")
    s = f.service("Pages", host=f"{name}.googleapis.com")
    reqs = list(PAGE_REQ_SHAPES)
    resps = list(PAGE_RESP_SHAPES)
    combos = [("std", r) for r in resps] + [(q, "items_msg") for q in reqs if q != "std"]
    combos += [(rng.choice(reqs), rng.choice(resps)) for _ in range(6)]
    rng.shuffle(combos)
    for i, (qs, rs) in enumerate(combos[:rng.randint(14, 22)]):
        q = f.message(f"List{i}Request")
        q.field("parent", "string")
        fields = list(PAGE_REQ_SHAPES[qs])
        extra = [("filter", "string"), ("order_by", "string"), ("view", color), ("deep", P + ".Item")]
        for n_, t_ in extra[:rng.randint(1, 4)]:
            q.field(n_, t_)
        for n_, t_ in fields:
            q.field(n_, t_)
        o = f.message(f"List{i}Response")
        if rs == "items_msg":
            o.field("items", P + ".Item", repeated=True)
            o.field("next_page_token", "string")
        elif rs == "token_first":
            o.field("next_page_token", "string")
            o.field("total_size", "int32")
            o.field("items", P + ".Item", repeated=True)
        elif rs == "two_repeated":
            o.field("unreachable", "string", repeated=True)
            o.field("items", P + ".Item", repeated=True)
            o.field("next_page_token", "string")
        elif rs == "scalars":
            o.field("names", "string", repeated=True)
            o.field("next_page_token", "string")
        elif rs == "map_items":
            o.map("items", "string", P + ".Item")
            o.field("next_page_token", "string")
        elif rs == "no_repeated":
            o.field("item", P + ".Item")
            o.field("next_page_token", "string")
        elif rs == "no_token":
            o.field("items", P + ".Item", repeated=True)
        elif rs == "token_int":
            o.field("items", P + ".Item", repeated=True)
            o.field("next_page_token", "int64")
        elif rs == "token_bytes":
            o.field("items", P + ".Item", repeated=True)
            o.field("next_page_token", "bytes")
        elif rs == "items_other_file":
            o.field("far_items", P + ".FarItem", repeated=True)
            o.field("next_page_token", "string")
        elif rs == "enums":
            o.field("colors", color, repeated=True)
            o.field("next_page_token", "string")
        elif rs == "decl_order":
            # order of appearance differs from tag order: "first" = first to appear in the message
            o.field("items", P + ".Item", number=3, repeated=True)
            o.field("next_page_token", "string", number=2)
            o.field("unreachable", "string", number=1, repeated=True)
        elif rs == "extra_fields":
            o.field("etag", "string")
            o.field("items", P + ".Item", repeated=True)
            o.field("next_page_token", "string")
            o.field("total_size", "int32")
            o.field("more", P + ".FarItem", repeated=True)
        s.rpc(f"List{i}", P + f".List{i}Request", P + f".List{i}Response",
              http={"get": f"/v1/{{parent=projects/*}}/items{i}"})
        tags.add("req:" + qs)
        tags.add("resp:" + rs)
        api.info.setdefault("shapes", {})[f"List{i}"] = [qs, rs]
    # every other method has a DEFAULT retry policy (retry-only entry: no default deadline): an explicit retry=None must then switch
    # retrying off for every page fetch, not only for the first
    named = [f"List{i}" for i in range(len(api.info.get("shapes", {}))) if i % 2 == 0]
    cfg = [{"name": [{"service": f"{pkg}.Pages", "method": n_} for n_ in named],
            "retryPolicy": {"initialBackoff": "0.005s", "maxBackoff": "0.01s", "backoffMultiplier": 1.0, "retryableStatusCodes": ["UNAVAILABLE"]}}]
    api.aux["retry-config"] = ("retry.json", json.dumps({"methodConfig": cfg}))
    api.info["default_retry_methods"] = named
    api.options = ["transport=grpc+rest", "autogen-snippets=false"]
    api.info.update(pkg=pkg, version=ver, ns=["vp"], name=name, host=f"{name}.googleapis.com")
    return api


def lro_api(rng, name, broken=None, rest=False, subpkg=False, async_rest=False):
    """operation_info type-resolution matrix (C08).  broken in {None, 'no_response', 'no_metadata', 'both_empty'}
    produces a request that must be rejected.  subpkg: the service and its files live in the proto sub-package <root>.admin next
    to a sibling sub-package <root>.common — relative type names are relative to the METHOD's package, not to the API's root."""
    api = Api(name)
    tags = api.tags
    ver = rng.choice(["v2", "v1beta1", "v3"]) if rest == "norules" else "v1"
    base = f"vp.{name}.{ver}"
    pkg = base + ".admin" if subpkg else base
    P = "." + pkg
    dirp = f"vp/{name}/{ver}" + ("/admin" if subpkg else "")
    # (metadata / request / retry / timeout are parameter names of every client method: such files are renamed <name>_ )
    fname_other = rng.choice(["progress", "operation", "operation_async", "results", "pagers", "common", "metadata", "request", "retry", "timeout",
                              "metadata", "request"])
    f_imp = File(f"{dirp}/imported_types.proto", pkg, deps=list(STD_DEPS))
    f_not = File(f"{dirp}/{fname_other}.proto", pkg, deps=list(STD_DEPS))
    f = File(f"{dirp}/{name}.proto", pkg, deps=list(STD_DEPS) + [f_imp.pb.name])
    api.add(f_imp)
    api.add(f_not)
    api.add(f)
    tags.add("otherfile:" + fname_other)

    def mk(fl, nm):
        m = fl.message(nm)
        m.field("name", "string")
        m.field("percent", "int32")
        m.field("note", "string")
        return m

    mk(f, "SameResult")
    mk(f, "SameMeta")
    mk(f_imp, "ImportedResult")
    mk(f_imp, "ImportedMeta")
    mk(f_not, "FarResult")
    mk(f_not, "FarMeta")
    q = f.message("StartRequest")
    q.field("name", "string")
    q.field("payload", "string")
    s = f.service("Jobs", host=f"{name}.googleapis.com")
    where = {"same": ("SameResult", "SameMeta"), "imported": ("ImportedResult", "ImportedMeta"), "far": ("FarResult", "FarMeta")}
    if subpkg:
        # the sibling sub-package has namesakes of the service package's types and types of its own (named fully qualified)
        f_sib = File(f"vp/{name}/{ver}/common/shared.proto", base + ".common", deps=list(STD_DEPS))
        api.add(f_sib)
        for nm in ("SameMeta", "FarResult", "SharedResult", "SharedMeta"):
            mk(f_sib, nm)
        where["sibling"] = ("SharedResult", "SharedMeta")
        tags.add("lro-service-in-sub-package")
    n = 0
    for wr in ["same", "imported", "far", "empty"] + (["sibling"] if subpkg else []):
        for wm in ["same", "imported", "far"] + (["sibling"] if subpkg else []):
            if rng.random() < 0.45:
                continue
            qual_r, qual_m = rng.random() < 0.5, rng.random() < 0.5
            if wr == "empty":
                rt_ = "google.protobuf.Empty"
            elif wr == "sibling":
                rt_, qual_r = base + ".common." + where[wr][0], True
            else:
                rt_ = (pkg + "." if qual_r else "") + where[wr][0]
            if wm == "sibling":
                mt_, qual_m = base + ".common." + where[wm][1], True
            else:
                mt_ = (pkg + "." if qual_m else "") + where[wm][1]
            s.rpc(f"Start{n}", P + ".StartRequest", ".google.longrunning.Operation",
                  http={"post": f"/v1/{{name=jobs/*}}:start{n}"}, body="*", lro=(rt_, mt_))
            api.info.setdefault("lro", {})[f"Start{n}"] = {"response": wr, "metadata": wm, "qualified": [qual_r, qual_m]}
            tags.update([f"resp:{wr}:{'fq' if qual_r else 'rel'}", f"meta:{wm}:{'fq' if qual_m else 'rel'}"])
            n += 1
    if rng.random() < 0.7:
        # services with a single LRO whose operation_info type shares its simple name with another type the method refers to
        # (a flattened field's local Status vs. google.rpc.Status as response; a local Date response vs. google.type.Date metadata)
        st = f.message("Status")
        st.field("name", "string")
        st.field("percent", "int32")
        vq = f.message("ValidateRequest")
        vq.field("name", "string")
        vq.field("expected", P + ".Status")
        s2 = f.service("Auditor", host=f"{name}.googleapis.com")
        s2.rpc("Validate", P + ".ValidateRequest", ".google.longrunning.Operation", http={"post": "/v1/{name=jobs/*}:validate"}, body="*",
               sigs=["name,expected"], lro=("google.rpc.Status", rng.choice(["SameMeta", pkg + ".SameMeta"])))
        api.info.setdefault("lro", {})["Validate"] = {"response": "dependency-namesake-of-flattened-type", "metadata": "same", "qualified": [True, False]}
        dt = f.message("Date")
        dt.field("name", "string")
        dt.field("note", "string")
        s3 = f.service("Dater", host=f"{name}.googleapis.com")
        s3.rpc("Stamp", P + ".StartRequest", ".google.longrunning.Operation", http={"post": "/v1/{name=jobs/*}:stamp"}, body="*",
               lro=(rng.choice(["Date", pkg + ".Date"]), "google.type.Date"))
        api.info.setdefault("lro", {})["Stamp"] = {"response": "same", "metadata": "dependency-namesake-of-response", "qualified": [False, True]}
        tags.add("lro-type-namesakes")
    # Operation-returning method without the annotation: raw Operation
    s.rpc("RawOp", P + ".StartRequest", ".google.longrunning.Operation", http={"post": "/v1/{name=jobs/*}:raw"}, body="*")
    s.rpc("Plain", P + ".StartRequest", P + ".SameResult", http={"get": "/v1/{name=jobs/*}"})
    if broken:
        lro = {"no_response": ("", "SameMeta"), "no_metadata": ("SameResult", ""), "both_empty": ("", "")}[broken]
        s.rpc("Broken", P + ".StartRequest", ".google.longrunning.Operation", http={"post": "/v1/{name=jobs/*}:broken"}, body="*", lro=lro)
        tags.add("broken:" + broken)
    api.options = ["transport=grpc", "autogen-snippets=false"]
    api.info.update(pkg=base, version=ver, ns=["vp"], name=name, host=f"{name}.googleapis.com", sub="admin" if subpkg else "")
    if rest:
        # over REST the operation future polls google.longrunning.Operations where the service YAML's http rules say it is
        # served — whether or not the YAML also lists Operations as a mixin under `apis`
        api.options = ["transport=grpc+rest", "autogen-snippets=false"]
        # the experimental asyncio REST transport has its own operations client (AsyncOperationsRestClient on an async transport)
        pub = {"library_settings": [{"version": base, "python_settings": {"experimental_features": {"rest_async_io_enabled": True}}}]} if async_rest else None
        if async_rest:
            tags.add("rest-lro-asyncio")
        if rest == "norules":
            # no Operations http rule anywhere: the fallback binding of api-core is used, under the API's own version
            api.info["rest_lro"] = {"prefix": "/" + ver, "operations_listed_under_apis": False, "rules": False, "async": bool(async_rest)}
            tags.update(["rest-lro", "rest-lro-without-rules", "ver:" + ver])
            if pub:
                api.aux["service-yaml"] = ("svc.yaml", service_yaml(api, publishing=pub))
        else:
            prefix = rng.choice(["/lro/v1", "/v1beta9/ops", "/x"])
            in_apis = (rng.random() < 0.5) if rest is True else (rest == "listed")
            rules = [{"selector": "google.longrunning.Operations.GetOperation", "get": prefix + "/{name=projects/*/operations/*}",
                      # operations of other collections are polled through an additional binding
                      "additional_bindings": [{"get": prefix + "/{name=organizations/*/operations/*}"},
                                              {"get": prefix + "/{name=folders/*/locations/*/operations/*}"}]},
                     {"selector": "google.longrunning.Operations.CancelOperation", "post": prefix + "/{name=projects/*/operations/*}:cancel", "body": "*"},
                     {"selector": "google.longrunning.Operations.DeleteOperation", "delete": prefix + "/{name=projects/*/operations/*}"},
                     {"selector": "google.longrunning.Operations.ListOperations", "get": prefix + "/{name=projects/*}/operations"}]
            api.aux["service-yaml"] = ("svc.yaml", service_yaml(api, mixins=["operations"] if in_apis else [], rules={"operations": []}, extra_rules=rules,
                                                                 publishing=pub))
            api.info["rest_lro"] = {"prefix": prefix, "operations_listed_under_apis": in_apis, "rules": True, "async": bool(async_rest), "additional": True}
            tags.update(["rest-lro", "ops-in-apis:" + str(in_apis)])
    return api


GRPC_CODES = ["CANCELLED", "UNKNOWN", "INVALID_ARGUMENT", "DEADLINE_EXCEEDED", "NOT_FOUND", "ALREADY_EXISTS", "PERMISSION_DENIED",
              "RESOURCE_EXHAUSTED", "FAILED_PRECONDITION", "ABORTED", "OUT_OF_RANGE", "UNIMPLEMENTED", "INTERNAL", "UNAVAILABLE",
              "DATA_LOSS", "UNAUTHENTICATED"]


def retry_api(rng, name, subpkg=False):
    """gRPC service-config shapes (C09): several entries, entries naming several methods, timeout with/without
    retryPolicy, retryPolicy without timeout, fractional / nanosecond durations, same method name in two services.
    subpkg: the services live in the proto sub-package <root>.store (next to <root>.audit): the config names them by their FULL proto name."""
    api = Api(name)
    tags = api.tags
    ver = "v1"
    base = f"vp.{name}.{ver}"
    pkg = base + ".store" if subpkg else base
    P = "." + pkg
    f = File(f"{pkg.replace('.', '/')}/{name}.proto", pkg, deps=list(STD_DEPS))
    api.add(f)
    if subpkg:
        fa = File(f"{base.replace('.', '/')}/audit/trail.proto", base + ".audit", deps=list(STD_DEPS))
        fa.message("Trail").field("note", "string")
        api.add(fa)
        tags.add("services-in-a-sub-package")
    q = f.message("Req")
    q.field("name", "string")
    r = f.message("Reply")
    r.field("ok", "bool")
    r.field("text", "string")
    sa = f.service("Alpha", host=f"{name}.googleapis.com")
    sb = f.service("Beta", host=f"{name}.googleapis.com")
    names_a = ["Get", "Put", "Scan", "Touch", "Drop", "Peek", "Sync", "Mark"]
    names_b = ["Get", "Put", "Other"]
    # HTTP rules of every shape (with a body, without one, per verb): over REST the deadline is the timeout handed to the session
    shapes = [("get", None), ("post", "*"), ("delete", None), ("post", None), ("patch", "*"), ("put", "*"), ("get", None), ("post", "*")]
    rng.shuffle(shapes)
    api.info["http_shape"] = {}
    for i, n in enumerate(names_a):
        # some methods return google.protobuf.Empty (the clients have a separate call site for those)
        verb, body = shapes[i % len(shapes)]
        sa.rpc(n, P + ".Req", ".google.protobuf.Empty" if n in ("Drop", "Touch", "Mark") else P + ".Reply",
               http={verb: f"/v1/{{name=alpha/*}}:a{n.lower()}"}, body=body)
        api.info["http_shape"][f"Alpha.{n}"] = f"{verb}{'+body' if body else ''}"
    for i, n in enumerate(names_b):
        verb, body = shapes[(i + 3) % len(shapes)]
        sb.rpc(n, P + ".Req", P + ".Reply", http={verb: f"/v1/{{name=beta/*}}:b{n.lower()}"}, body=body)
        api.info["http_shape"][f"Beta.{n}"] = f"{verb}{'+body' if body else ''}"
    # a paginated method named in an entry with a retry policy: the default and any explicit retry apply to every page fetch
    lq = f.message("ListReq")
    lq.field("parent", "string")
    lq.field("page_size", "int32")
    lq.field("page_token", "string")
    lr = f.message("ListReply")
    lr.field("items", "string", repeated=True)
    lr.field("next_page_token", "string")
    sa.rpc("List", P + ".ListReq", P + ".ListReply", http={"get": "/v1/{parent=shelves/*}/items"})
    api.info["http_shape"]["Alpha.List"] = "get"
    # request-streaming methods are configured like any other (their default retry is built by the same table, per client kind)
    sa.rpc("Upload", P + ".Req", P + ".Reply", cs=True)
    sa.rpc("Chat", P + ".Req", P + ".Reply", cs=True, ss=True)
    timeouts = rng.sample([5, 12, 20, 33, 47, 60, 75, 90, 120], 6)
    # incl. durations that are not a whole number of milliseconds
    durs = ["0.1s", "0.5s", "1s", "1.25s", "0.250000000s", "2s", "0.05s", "0.0005s", "0.0125s", "1.0625s", "0.000250s"]

    def policy():
        ini = rng.choice(durs)
        return {"initialBackoff": ini, "maxBackoff": rng.choice(["1s", "3.500000000s", "10s", "0.2s", "60s", "0.0045s", "2.00075s"]),
                "backoffMultiplier": rng.choice([1.0, 1.3, 2, 2.5]), "maxAttempts": rng.choice([3, 5]),
                "retryableStatusCodes": rng.sample(GRPC_CODES, rng.randint(1, 4))}

    A = f"{pkg}.Alpha"
    B = f"{pkg}.Beta"
    cfg = []
    pool = list(names_a)
    rng.shuffle(pool)
    # entry 1: several methods, timeout + retry
    cfg.append({"name": [{"service": A, "method": pool[0]}, {"service": A, "method": pool[1]}], "timeout": f"{timeouts[0]}s", "retryPolicy": policy()})
    # entry 2: timeout only (fractional)
    cfg.append({"name": [{"service": A, "method": pool[2]}], "timeout": f"{timeouts[1]}.5s"})
    # entry 3: retry only (no timeout)
    slow = policy()
    if rng.random() < 0.7:
        # backoffs large enough for a run of retryable failures to last several (virtual) minutes
        slow.update(maxBackoff=rng.choice(["30s", "60s", "45.5s"]), backoffMultiplier=rng.choice([2, 2.5, 3]), initialBackoff=rng.choice(["1s", "2s", "1.25s"]))
    cfg.append({"name": [{"service": A, "method": pool[3]}], "retryPolicy": slow})
    # entry 4: nanosecond-suffixed timeout + retry, names a method of Beta with the same name as one of Alpha
    cfg.append({"name": [{"service": B, "method": "Get"}], "timeout": f"{timeouts[2]}.000000000s", "retryPolicy": policy()})
    # entry 5: a later duplicate for pool[0] with different values must lose to entry 1
    cfg.append({"name": [{"service": A, "method": pool[0]}, {"service": A, "method": pool[4]}], "timeout": f"{timeouts[3]}s", "retryPolicy": policy()})
    # entry 6: names a method that does not exist and a service that does not exist
    cfg.append({"name": [{"service": A, "method": "Nope"}, {"service": f"{pkg}.Gamma", "method": "Get"}], "timeout": "3s", "retryPolicy": policy()})
    # entry 7: the very backoff numbers of entry 1 with OTHER retryable codes (two policies that differ only in their code lists)
    twin = dict(cfg[0]["retryPolicy"])
    others = [c for c in GRPC_CODES if c not in twin["retryableStatusCodes"]]
    twin["retryableStatusCodes"] = rng.sample(others, rng.randint(1, 3))
    cfg.append({"name": [{"service": A, "method": pool[5]}], "timeout": f"{timeouts[5]}s", "retryPolicy": twin})
    tags.add("entry:same-backoff-other-codes")
    cfg.append({"name": [{"service": A, "method": "Upload"}, {"service": A, "method": "Chat"}], "timeout": "41s", "retryPolicy": policy()})
    tags.add("entry:request-streaming-methods")
    lp = policy()
    lp["retryableStatusCodes"] = sorted(set(lp["retryableStatusCodes"]) - {"NOT_FOUND"}) or ["UNAVAILABLE"]
    cfg.append({"name": [{"service": A, "method": "List"}], "timeout": f"{timeouts[4]}s", "retryPolicy": lp})
    if rng.random() < 0.5:
        rng.shuffle(cfg[1:4])
    # pool[6:], Alpha.Get (unless drawn), Beta.Put, Beta.Other stay unnamed
    api.aux["retry-config"] = ("retry.json", json.dumps({"methodConfig": cfg}, indent=1))
    api.info["retry_cfg"] = cfg
    tags.update(["entry:multi-name", "entry:timeout-only", "entry:retry-only", "entry:ns-duration", "entry:duplicate", "entry:unknown-method",
                 "same-method-two-services"])
    api.options = ["transport=grpc+rest", "autogen-snippets=false"]
    api.info.update(pkg=base, version=ver, ns=["vp"], name=name, host=f"{name}.googleapis.com", sub="store" if subpkg else "")
    return api


C12_POSITIONS = ["field", "flat", "flat_dotted", "path", "path_dotted", "path_dotted_parent", "body", "body_plain_uri", "query", "query_required", "routing", "routing_nested", "rpc", "file",
                 "path_additional", "body_additional"]


def reserved_api(name, words, position):
    """One library for one position holding all given words at once (C12)."""
    api = Api(name)
    ver = "v1"
    pkg = f"vp.{name}.{ver}"
    P = "." + pkg
    dirp = f"vp/{name}/{ver}"
    f = File(f"{dirp}/{name}.proto", pkg, deps=list(STD_DEPS))
    api.add(f)
    rp = f.message("Reply")
    rp.field("ok", "bool")
    s = f.service("Words", host=f"{name}.googleapis.com")
    api.info["items"] = []
    for i, w in enumerate(words):
        item = {"word": w, "i": i}
        if position == "file":
            fx = File(f"{dirp}/{w}.proto", pkg, deps=list(STD_DEPS))
            m = fx.message(f"InFile{i}")
            m.field("value", "string")
            fx.enum(f"EnumInFile{i}", f"E{i}_UNSPECIFIED", f"E{i}_ONE")
            api.add(fx)
            f.pb.dependency.append(fx.pb.name)
            q = f.message(f"Req{i}")
            q.field("anchor", "string")
            # a field named like the file's module, declared BEFORE fields whose types come from that file: inside the class body
            # the attribute would shadow the module for every later reference
            q.field(w, "string")
            q.field("held", P + f".InFile{i}")
            q.field("held_again", P + f".InFile{i}", repeated=True)
            s.rpc(f"UseFile{i}", P + f".Req{i}", P + f".InFile{i}", http={"post": f"/v1/{{anchor=anchors/*}}:file{i}"}, body="*")
            item.update(rpc=f"UseFile{i}", req=f"{pkg}.Req{i}", msg=f"{pkg}.InFile{i}")
            api.info["items"].append(item)
            continue
        if position == "rpc":
            rpcname = w[0].upper() + w[1:]
            q = f.message(f"Req{i}")
            q.field("anchor", "string")
            q.field("text", "string")
            s.rpc(rpcname, P + f".Req{i}", P + ".Reply", http={"post": f"/v1/{{anchor=anchors/*}}:rpc{i}"}, body="*", sigs=["text"])
            item.update(rpc=rpcname, req=f"{pkg}.Req{i}")
            api.info["items"].append(item)
            continue
        inner = f.message(f"Inner{i}")
        inner.field(w, "string", number=3)
        inner.field("other", "string", number=1)
        q = f.message(f"Req{i}")
        q.field("anchor", "string", number=1)
        if position in ("body", "body_plain_uri", "path_dotted_parent", "body_additional"):
            q.field(w, P + f".Inner{i}", number=7)
        elif position == "query_required":
            q.field(w, "string", number=7, required=True)
        else:
            q.field(w, "string", number=7)
        q.field("inner", P + f".Inner{i}", number=4)
        q.field("extra", "string", number=9)
        kw = {}
        if position == "field":
            kw = dict(http={"post": f"/v1/{{anchor=anchors/*}}:f{i}"}, body="*")
        elif position == "flat":
            kw = dict(http={"post": f"/v1/{{anchor=anchors/*}}:l{i}"}, body="*", sigs=[f"anchor,{w}"])
        elif position == "flat_dotted":
            kw = dict(http={"post": f"/v1/{{anchor=anchors/*}}:d{i}"}, body="*", sigs=[f"anchor,inner.{w}"])
        elif position == "path":
            kw = dict(http={"get": f"/v1/{{{w}=things/*}}/p{i}"})
        elif position == "path_dotted":
            kw = dict(http={"get": f"/v1/{{inner.{w}=things/*}}/pd{i}"})
        elif position == "path_dotted_parent":
            # the reserved word is the PARENT segment of the path variable (the Update shape: {<resource>.name=...}, body <resource>)
            kw = dict(http={"patch": f"/v1/{{{w}.other=things/*}}/pp{i}"}, body=w)
        elif position == "body":
            kw = dict(http={"post": f"/v1/{{anchor=anchors/*}}:b{i}"}, body=w)
        elif position == "body_plain_uri":
            # the Create-at-top-level shape: a URI without any path variable, body = the reserved-word field
            kw = dict(http={"post": f"/v1/plain/b{i}"}, body=w)
        elif position == "path_additional":
            # the reserved word is a path variable of an ADDITIONAL binding only (the request selects that binding)
            kw = dict(http={"get": f"/v1/{{anchor=anchors/*}}/pa{i}"}, extra=[({"get": f"/v1/{{{w}=things/*}}/pa{i}"}, None)])
        elif position == "body_additional":
            # ... or the body of an additional binding
            kw = dict(http={"post": f"/v1/{{anchor=anchors/*}}:ba{i}"}, body="*", extra=[({"post": f"/v1/{{extra=extras/*}}:ba{i}"}, w)])
        elif position == "query":
            kw = dict(http={"get": f"/v1/{{anchor=anchors/*}}:q{i}"})
        elif position == "query_required":
            kw = dict(http={"get": f"/v1/{{anchor=anchors/*}}:qr{i}"})
        elif position == "routing":
            kw = dict(http={"post": f"/v1/{{anchor=anchors/*}}:r{i}"}, body="*", routing=[(w, "")])
        elif position == "routing_nested":
            kw = dict(http={"post": f"/v1/{{anchor=anchors/*}}:rn{i}"}, body="*", routing=[(f"inner.{w}", "")])
        s.rpc(f"Call{i}", P + f".Req{i}", P + ".Reply", **kw)
        item.update(rpc=f"Call{i}", req=f"{pkg}.Req{i}", inner=f"{pkg}.Inner{i}")
        api.info["items"].append(item)
    api.options = ["transport=grpc+rest", "autogen-snippets=false"] + (["metadata"] if position == "rpc" else [])
    api.info.update(pkg=pkg, version=ver, ns=["vp"], name=name, host=f"{name}.googleapis.com", position=position)
    return api


def rand_pattern(rng):
    """A resource pattern from the grammar of C19."""
    form = rng.choice(["plain", "plain", "plain", "multi", "dstar", "singleton", "sep", "sep", "camel", "deep"])
    # (resource ids named like builtins of the generator's reserved list — object, type, format, ... — are ordinary in real APIs: the
    # helper's keyword arguments and the keys of the parsed dict are those very names)
    vars_ = ["project", "location", "shelf", "book", "page", "line", "zone", "alpha_beta", "x1", "item_id", "object", "type", "format",
             "license", "hash", "list", "range"]
    rng.shuffle(vars_)
    colls = ["projects", "locations", "shelves", "books", "pages", "lines", "zones", "alphaBetas", "items", "things", "a", "v2data"]
    rng.shuffle(colls)
    n = {"plain": rng.randint(1, 3), "multi": rng.randint(4, 6), "dstar": rng.randint(1, 3), "singleton": rng.randint(1, 3),
         "sep": rng.randint(2, 4), "camel": 2, "deep": 6}[form]
    segs, used = [], []
    i = 0
    while i < n:
        v = vars_[i]
        if form == "sep" and i + 1 < n and rng.random() < 0.7:
            sep = rng.choice(["-", "_", "~", "."])
            k = 2 if i + 2 >= n or rng.random() < 0.7 else 3
            group = vars_[i:i + k]
            segs.append(colls[i] + "/" + sep.join("{%s}" % g for g in group))
            used += group
            i += len(group)
            continue
        segs.append(colls[i] + "/{%s}" % v)
        used.append(v)
        i += 1
    pat = "/".join(segs)
    if form == "dstar":
        pat += "/docs/{path=**}"
        used.append("path")
    if form == "singleton":
        pat += "/" + rng.choice(["config", "settings", "cmekConfig", "state"])
    return pat, used, form


def respath_api(rng, name, npat=36):
    """Many resource patterns visible to one service (C19): message resources (as field types), file-level
    resource definitions reached through resource_reference (type and child_type), plus the wildcard."""
    api = Api(name)
    tags = api.tags
    ver = "v1"
    pkg = f"vp.{name}.{ver}"
    P = "." + pkg
    # resources declared in an imported file of ANOTHER package (a shared resources file) and reached by their type string only
    dpkg = f"vpres.{name}shared"
    depf = File(f"vpres/{name}shared/resources.proto", dpkg, deps=[x for x in STD_DEPS if "resource" in x])
    api.add(depf, target=False, synth=True)
    f = File(f"vp/{name}/{ver}/{name}.proto", pkg, deps=list(STD_DEPS) + [depf.pb.name])
    api.add(f)
    q = f.message("Req")
    q.field("name", "string")
    # where a resource is visible from: the request itself, messages nested 1..3 hops below it, or below the response
    holders = [q]
    prev = q
    for d in range(1, 4):
        h = f.message(f"ReqLevel{d}")
        h.field("label", "string")
        prev.field(f"level{d}", P + f".ReqLevel{d}")
        holders.append(h)
        prev = h
    o = f.message("Reply")
    o.field("ok", "bool")
    prev = o
    for d in range(1, 3):
        h = f.message(f"ReplyLevel{d}")
        h.field("label", "string")
        prev.field(f"level{d}", P + f".ReplyLevel{d}", repeated=d == 2)
        holders.append(h)
        prev = h
    # ... or only from the response type named in the operation_info of a long-running method
    lr = f.message("LroResult")
    lr.field("summary", "string")
    lr_inner = f.message("LroResultPart")
    lr_inner.field("label", "string")
    lr.field("part", P + ".LroResultPart")
    lm = f.message("LroMeta")
    lm.field("percent", "int32")
    holders += [lr, lr, lr_inner]
    top = q
    res = []
    for i in range(npat):
        q = rng.choice([top, top] + holders)
        pat, used, form = rand_pattern(rng)
        tn = f"R{chr(97 + i // 26)}{chr(97 + i % 26)}Thing"
        rtype = f"{name}.googleapis.com/{tn}"
        how = rng.choice(["message", "message", "definition_ref", "definition_child", "dep_definition_ref", "dep_message_ref"])
        extra = []
        if rng.random() < 0.3:
            p2, _, _ = rand_pattern(rng)
            extra = [p2]          # only the first pattern gets helpers
        elif rng.random() < 0.3:
            extra = ["*"]         # a later wildcard pattern (resources that may also be named arbitrarily) changes nothing for the first one
            api.tags.add("later-wildcard-pattern")
        if how == "message":
            m = f.message(tn)
            m.resource(rtype, pat, *extra)
            m.field("name", "string")
            q.field(f"f_{i}", P + "." + tn)
        elif how == "dep_definition_ref":
            depf.resource_definition(rtype, pat, *extra)
            q.field(f"ref_{i}", "string", ref=rtype)
        elif how == "dep_message_ref":
            dm = depf.message(tn)
            dm.resource(rtype, pat, *extra)
            dm.field("name", "string")
            q.field(f"ref_{i}", "string", ref=rtype)
        else:
            f.resource_definition(rtype, pat, *extra)
            if how == "definition_ref":
                q.field(f"ref_{i}", "string", ref=rtype)
            else:
                q.field(f"ref_{i}", "string", child_ref=rtype)
        res.append({"type": rtype, "short": tn, "pattern": pat, "vars": used, "form": form, "how": how, "held_by": q.pb.name})
        tags.update(["form:" + form, "how:" + how, "held-by:" + q.pb.name])
    q = top
    # an API may declare and reference a resource whose TYPE is one of the built-in common ones (locations.googleapis.com/Location):
    # it gets its own <name>_path helpers next to the common_* ones
    f.resource_definition("locations.googleapis.com/Location", "projects/{project}/locations/{location}")
    q.field("in_location", "string", ref="locations.googleapis.com/Location")
    res.append({"type": "locations.googleapis.com/Location", "short": "Location", "pattern": "projects/{project}/locations/{location}",
                "vars": ["project", "location"], "form": "plain", "how": "definition_with_common_type"})
    tags.add("how:definition_with_common_type")
    # wildcard pattern
    m = f.message("WildThing")
    m.resource(f"{name}.googleapis.com/WildThing", "*")
    m.field("name", "string")
    q.field("wild", P + ".WildThing")
    res.append({"type": f"{name}.googleapis.com/WildThing", "short": "WildThing", "pattern": "*", "vars": [], "form": "wildcard", "how": "message"})
    s = f.service("Paths", host=f"{name}.googleapis.com")
    s.rpc("Do", P + ".Req", P + ".Reply")
    s.rpc("Run", P + ".Req", ".google.longrunning.Operation", lro=("LroResult", "LroMeta"))
    # a method whose response (and one whose request) IS a resource message that holds further resource messages, reachable no other
    # way: Get returns Crate, Crate holds Slats, a Slat holds a Nail
    nail = f.message("NailPart")
    nail.resource(f"{name}.googleapis.com/NailPart", "crates/{crate_part}/slats/{slat_part}/nails/{nail_part}")
    nail.field("name", "string")
    slat = f.message("SlatPart")
    slat.resource(f"{name}.googleapis.com/SlatPart", "crates/{crate_part}/slats/{slat_part}")
    slat.field("name", "string")
    slat.field("nail", P + ".NailPart")
    crate = f.message("CratePart")
    crate.resource(f"{name}.googleapis.com/CratePart", "crates/{crate_part}")
    crate.field("name", "string")
    crate.field("slats", P + ".SlatPart", repeated=True)
    s.rpc("GetCrate", P + ".Req", P + ".CratePart")
    bolt = f.message("BoltPart")
    bolt.resource(f"{name}.googleapis.com/BoltPart", "racks/{rack_part}/bolts/{bolt_part}")
    bolt.field("name", "string")
    rack = f.message("RackPart")
    rack.resource(f"{name}.googleapis.com/RackPart", "racks/{rack_part}")
    rack.field("name", "string")
    rack.map("bolts", "string", P + ".BoltPart")
    s.rpc("UpdateRack", P + ".RackPart", P + ".Reply")
    for short, pat_, vars_ in (("NailPart", "crates/{crate_part}/slats/{slat_part}/nails/{nail_part}", ["crate_part", "slat_part", "nail_part"]),
                               ("SlatPart", "crates/{crate_part}/slats/{slat_part}", ["crate_part", "slat_part"]),
                               ("CratePart", "crates/{crate_part}", ["crate_part"]),
                               ("BoltPart", "racks/{rack_part}/bolts/{bolt_part}", ["rack_part", "bolt_part"]),
                               ("RackPart", "racks/{rack_part}", ["rack_part"])):
        res.append({"type": f"{name}.googleapis.com/{short}", "short": short, "pattern": pat_, "vars": vars_, "form": "plain",
                    "how": "held_by_a_resource_that_is_the_request_or_response"})
    tags.add("how:held_by_a_resource_that_is_the_request_or_response")
    api.info["resources"] = res
    api.options = ["transport=grpc", "autogen-snippets=false"]
    api.info.update(pkg=pkg, version=ver, ns=["vp"], name=name, host=f"{name}.googleapis.com")
    return api


AUTOPOP_VIOLATIONS = ["unknown_method", "server_streaming", "client_streaming", "bidi_streaming", "nested_field", "required_field", "int_field",
                      "bytes_field", "unannotated", "other_format", "duplicate_selector", "unknown_field", "message_field",
                      "duplicate_selector_long_running_only", "duplicate_selector_empty_fields", "duplicate_of_unpopulated",
                      "required_after_other_behavior", "required_before_other_behavior",
                      "leading_dot_selector", "leading_dot_duplicate", "repeated_string_field"]


def autopop_api(rng, name, violation=None, plant=True, subpkg=False, selective=False):
    """AIP-4235 shapes (C18).  subpkg: every service lives in the proto sub-package <root>.catalog (next to <root>.resources): the
    settings are validated and applied all the same."""
    from google.api import field_info_pb2
    api = Api(name)
    ver = "v1"
    base = f"vp.{name}.{ver}"
    pkg = base + ".catalog" if subpkg else base
    P = "." + pkg
    f = File(f"{pkg.replace('.', '/')}/{name}.proto", pkg, deps=list(STD_DEPS))
    api.add(f)
    if subpkg:
        fr = File(f"{base.replace('.', '/')}/resources/shared.proto", base + ".resources", deps=list(STD_DEPS))
        fr.message("SharedThing").field("label", "string")
        api.add(fr)
        api.tags.add("services-in-a-sub-package")
    sub = f.message("Sub")
    sub.field("request_id", "string", uuid4=True)
    q = f.message("Req")
    q.field("name", "string")
    q.field("request_id", "string", uuid4=True)
    q.field("opt_request_id", "string", optional=True, uuid4=True)
    q.field("payload", "string")
    q.field("count", "int32")
    q.field("sub", P + ".Sub")
    q.field("required_id", "string", uuid4=True, required=True)
    q.field("int_id", "int32", uuid4=True)
    q.field("bytes_id", "bytes", uuid4=True)
    q.field("plain_id", "string")
    fo = q.field("ipv4_id", "string")
    fo.options.Extensions[field_info_pb2.field_info].format = field_info_pb2.FieldInfo.IPV4
    q.field("sub_id", P + ".Sub", uuid4=True)
    q.field("third_id", "string", uuid4=True)
    # an ordinary field that happens to be called `uuid` (flattened by Stamp below)
    q.field("uuid", "string")
    # a LIST of strings annotated UUID4 is not "a string field": it cannot hold one request id
    q.field("id_list", "string", repeated=True, uuid4=True)
    from google.api import field_behavior_pb2 as fb
    # REQUIRED next to other behaviors (the option is a list), and other behaviors alone
    q.field("immutable_required_id", "string", uuid4=True, behaviors=[fb.IMMUTABLE, fb.REQUIRED])
    q.field("required_input_only_id", "string", uuid4=True, behaviors=[fb.REQUIRED, fb.INPUT_ONLY])
    q.field("immutable_id", "string", uuid4=True, behaviors=[fb.IMMUTABLE, fb.INPUT_ONLY])
    r = f.message("Reply")
    r.field("ok", "bool")
    s = f.service("Ids", host=f"{name}.googleapis.com")
    # the auto-populated fields are also flattened parameters here: a value that arrives inside `request` is just as much the caller's
    s.rpc("Create", P + ".Req", P + ".Reply", http={"post": "/v1/{name=things/*}:create"}, body="*", sigs=["name,request_id,opt_request_id", "name"])
    s.rpc("Fetch", P + ".Req", P + ".Reply", http={"get": "/v1/{name=things/*}"})
    s.rpc("Patch", P + ".Req", P + ".Reply", http={"patch": "/v1/{name=things/*}"}, body="sub", sigs=["name,payload"])
    s.rpc("Untouched", P + ".Req", P + ".Reply", http={"post": "/v1/{name=things/*}:untouched"}, body="*")
    s.rpc("Tail", P + ".Req", P + ".Reply", ss=True, http={"get": "/v1/{name=things/*}:tail"})
    s.rpc("Upload", P + ".Req", P + ".Reply", cs=True)
    s.rpc("Chat", P + ".Req", P + ".Reply", cs=True, ss=True)
    # a long-running method is a unary RPC too: its request ids are populated like any other
    s.rpc("StartJob", P + ".Req", ".google.longrunning.Operation", http={"post": "/v1/{name=things/*}:startJob"}, body="*", lro=("Reply", "Sub"))
    s.rpc("Purge", P + ".Req", ".google.protobuf.Empty", http={"post": "/v1/{name=things/*}:purge"}, body="*")
    # a flattened parameter named like the module the population code uses
    s.rpc("Stamp", P + ".Req", P + ".Reply", http={"post": "/v1/{name=things/*}:stamp"}, body="*", sigs=["name,uuid"])
    S = f"{pkg}.Ids"
    settings = [
        {"selector": f"{S}.Create", "auto_populated_fields": ["request_id", "opt_request_id"]},
        {"selector": f"{S}.Fetch", "auto_populated_fields": rng.choice([["request_id"], ["opt_request_id"], ["request_id", "third_id"]])},
        {"selector": f"{S}.Patch", "auto_populated_fields": ["opt_request_id", "request_id"]},
        {"selector": f"{S}.StartJob", "auto_populated_fields": rng.choice([["request_id"], ["opt_request_id", "request_id"]])},
        {"selector": f"{S}.Purge", "auto_populated_fields": ["request_id", "third_id"]},
        {"selector": f"{S}.Stamp", "auto_populated_fields": ["request_id"]},
    ]
    bad = {
        "unknown_method": {"selector": f"{S}.Nope", "auto_populated_fields": ["request_id"]},
        "server_streaming": {"selector": f"{S}.Tail", "auto_populated_fields": ["request_id"]},
        "client_streaming": {"selector": f"{S}.Upload", "auto_populated_fields": ["request_id"]},
        "bidi_streaming": {"selector": f"{S}.Chat", "auto_populated_fields": ["request_id"]},
        "nested_field": {"selector": f"{S}.Untouched", "auto_populated_fields": ["sub.request_id"]},
        "required_field": {"selector": f"{S}.Untouched", "auto_populated_fields": ["required_id"]},
        "int_field": {"selector": f"{S}.Untouched", "auto_populated_fields": ["int_id"]},
        "bytes_field": {"selector": f"{S}.Untouched", "auto_populated_fields": ["bytes_id"]},
        "unannotated": {"selector": f"{S}.Untouched", "auto_populated_fields": ["plain_id"]},
        "other_format": {"selector": f"{S}.Untouched", "auto_populated_fields": ["ipv4_id"]},
        "duplicate_selector": {"selector": f"{S}.Create", "auto_populated_fields": ["third_id"]},
        "duplicate_selector_long_running_only": {"selector": f"{S}.Create", "long_running": {"initial_poll_delay": "5s"}},
        "duplicate_selector_empty_fields": {"selector": f"{S}.Fetch", "auto_populated_fields": []},
        "duplicate_of_unpopulated": {"selector": f"{S}.Untouched", "auto_populated_fields": ["request_id"]},
        "required_after_other_behavior": {"selector": f"{S}.Untouched", "auto_populated_fields": ["immutable_required_id"]},
        "required_before_other_behavior": {"selector": f"{S}.Untouched", "auto_populated_fields": ["required_input_only_id"]},
        # spellings of a selector that name no method (a selector is the bare fully-qualified name)
        "leading_dot_selector": {"selector": f".{S}.Untouched", "auto_populated_fields": ["request_id"]},
        "leading_dot_duplicate": {"selector": f".{S}.Create", "auto_populated_fields": ["third_id"]},
        "unknown_field": {"selector": f"{S}.Untouched", "auto_populated_fields": ["no_such_field"]},
        "repeated_string_field": {"selector": f"{S}.Untouched", "auto_populated_fields": ["id_list"]},
        "message_field": {"selector": f"{S}.Untouched", "auto_populated_fields": ["sub_id"]},
    }
    roll = rng.random()
    if violation == "duplicate_of_unpopulated" or (roll < 0.4 and (not violation or not bad[violation]["selector"].endswith(".Untouched"))):
        # an entry that configures something else for a method: valid, and populates nothing (never next to a planted entry for the
        # same method: that entry would then be rejected as a duplicate, not for what it plants)
        pos_ = rng.randint(0, len(settings))
        # (in half of these the entry that populates nothing comes FIRST: whatever is decided per library looks at every entry)
        settings.insert(0 if roll < 0.2 or violation == "duplicate_of_unpopulated" else pos_, {"selector": f"{S}.Untouched", "long_running": {"initial_poll_delay": "3s"}})
    if violation and plant:
        settings.insert(rng.randint(0, len(settings)), bad[violation])
    api.info["method_settings"] = settings
    pub_ = {"method_settings": settings}
    if selective:
        # selective generation is configured too (omit mode, every RPC listed): the method settings are validated all the same
        pub_.update(selective_publishing(base, [f"{S}.{m_.name}" for m_ in f.pb.service[0].method]))
        api.tags.add("selective-generation-configured")
    api.aux["service-yaml"] = ("svc.yaml", service_yaml(api, publishing=pub_))
    api.options = ["transport=grpc+rest", "autogen-snippets=false"]
    api.info.update(pkg=base, version=ver, ns=["vp"], name=name, host=f"{name}.googleapis.com", sub="catalog" if subpkg else "")
    return api


MIXIN_METHODS = {
    # client method -> (mixin key, rule index, full gRPC path, request type, response type, routing field, sample value)
    "get_location": ("locations", 0, "/google.cloud.location.Locations/GetLocation", "google.cloud.location.GetLocationRequest", "google.cloud.location.Location", "name"),
    "list_locations": ("locations", 1, "/google.cloud.location.Locations/ListLocations", "google.cloud.location.ListLocationsRequest", "google.cloud.location.ListLocationsResponse", "name"),
    "get_iam_policy": ("iam", 0, "/google.iam.v1.IAMPolicy/GetIamPolicy", "google.iam.v1.GetIamPolicyRequest", "google.iam.v1.Policy", "resource"),
    "set_iam_policy": ("iam", 1, "/google.iam.v1.IAMPolicy/SetIamPolicy", "google.iam.v1.SetIamPolicyRequest", "google.iam.v1.Policy", "resource"),
    "test_iam_permissions": ("iam", 2, "/google.iam.v1.IAMPolicy/TestIamPermissions", "google.iam.v1.TestIamPermissionsRequest", "google.iam.v1.TestIamPermissionsResponse", "resource"),
    "get_operation": ("operations", 0, "/google.longrunning.Operations/GetOperation", "google.longrunning.GetOperationRequest", "google.longrunning.Operation", "name"),
    "list_operations": ("operations", 1, "/google.longrunning.Operations/ListOperations", "google.longrunning.ListOperationsRequest", "google.longrunning.ListOperationsResponse", "name"),
    "delete_operation": ("operations", 2, "/google.longrunning.Operations/DeleteOperation", "google.longrunning.DeleteOperationRequest", "google.protobuf.Empty", "name"),
    "cancel_operation": ("operations", 3, "/google.longrunning.Operations/CancelOperation", "google.longrunning.CancelOperationRequest", "google.protobuf.Empty", "name"),
    "wait_operation": ("operations", 4, "/google.longrunning.Operations/WaitOperation", "google.longrunning.WaitOperationRequest", "google.longrunning.Operation", "name"),
}


def mixin_api(rng, name, mixins, rules_mode, own_iam=None, add_iam=False, transport="grpc+rest", prefix="/v1", annex="random", unlisted=(),
              internal_own=False):
    """Service YAML mixin configurations (C17).  rules_mode in {all, some, none}; own_iam: None or a list of IAM RPC
    names the API defines itself."""
    api = Api(name)
    ver = "v1"
    pkg = f"vp.{name}.{ver}"
    P = "." + pkg
    deps = list(STD_DEPS) + ["google/iam/v1/iam_policy.proto", "google/iam/v1/policy.proto", "google/cloud/location/locations.proto"]
    api.dep_mods += ["google.iam.v1.iam_policy_pb2", "google.iam.v1.policy_pb2", "google.cloud.location.locations_pb2"]
    f = File(f"vp/{name}/{ver}/{name}.proto", pkg, deps=deps)
    api.add(f)
    q = f.message("Req")
    q.field("name", "string")
    r = f.message("Reply")
    r.field("ok", "bool")
    if annex == "random":
        annex = rng.choice([None, "before", "after"])
    if annex == "before":
        # another service declared first: whatever the API overrides is then not in the first service
        s0 = f.service("Annex", host=f"{name}.googleapis.com")
        s0.rpc("Peek", P + ".Req", P + ".Reply", http={"get": "/v1/{name=annexes/*}"})
        api.tags.add("overriding-service-not-first")
    s = f.service("Vault", host=f"{name}.googleapis.com")
    s.rpc("GetThing", P + ".Req", P + ".Reply", http={"get": "/v1/{name=things/*}"})
    s.rpc("StartJob", P + ".Req", ".google.longrunning.Operation", http={"post": "/v1/{name=things/*}:start"}, body="*", lro=("Reply", "Req"))
    for nm in own_iam or []:
        rq, rs = {"SetIamPolicy": ("SetIamPolicyRequest", "Policy"), "GetIamPolicy": ("GetIamPolicyRequest", "Policy"),
                  "TestIamPermissions": ("TestIamPermissionsRequest", "TestIamPermissionsResponse")}[nm]
        verb = "get" if nm == "GetIamPolicy" else "post"
        kw = dict(http={verb: f"/v1/{{resource=things/*}}:{nm[0].lower() + nm[1:]}"})
        if verb == "post":
            kw["body"] = "*"
        s.rpc(nm, ".google.iam.v1." + rq, ".google.iam.v1." + rs, **kw)
    if annex == "after":
        # ... or declared last: the overriding service is then not the last one
        s9 = f.service("Annex", host=f"{name}.googleapis.com")
        s9.rpc("Peek", P + ".Req", P + ".Reply", http={"get": "/v1/{name=annexes/*}"})
        api.tags.add("overriding-service-not-last")
    rules = {}
    for m in mixins:
        n = len(MIXIN_RULES[m][1])
        if rules_mode == "all":
            rules[m] = list(range(n))
        elif rules_mode == "none":
            rules[m] = []
        else:
            rules[m] = sorted(rng.sample(range(n), rng.randint(1, n - 1))) if n > 1 else [0]
    api.info["mixins"] = list(mixins)
    api.info["rules"] = rules
    api.info["own_iam"] = list(own_iam or [])
    api.info["add_iam"] = add_iam
    api.info["prefix"] = prefix
    # rule paths carry a per-case prefix so that "uses the rule's path" is observable
    extra_rules = []
    doc_rules = {}
    for m in mixins:
        apiname, rl = MIXIN_RULES[m]
        for i in rules[m]:
            sel, r0 = rl[i]
            r1 = {k: (v.replace("/v1/", prefix + "/") if isinstance(v, str) and v.startswith("/v1/") else v) for k, v in r0.items()}
            verb = [k for k in r1 if k in ("get", "post", "delete")][0]
            if "body" in r1 and rng.random() < 0.3:
                # a rule may leave the body out although the RPC's published annotation has one: everything then travels in the query
                del r1["body"]
                api.tags.add("mixin-rule-without-body")
            elif sel.endswith(".SetIamPolicy") and rng.random() < 0.5:
                # ... or name ONE field as the body: the other set fields (update_mask) then travel in the query
                r1["body"] = "policy"
                api.tags.add("mixin-rule-with-named-body-field")
            roll = rng.random()
            if roll < 0.25:
                # a second binding on the same URI with another verb / body: the first binding stays the one in effect
                other = {"post": r1[verb], "body": "*"} if verb == "get" else {"get": r1[verb]}
                r1["additional_bindings"] = [other]
                api.tags.add("mixin-additional-binding-same-uri")
            elif roll < 0.4:
                r1["additional_bindings"] = [{verb: r1[verb].replace(prefix + "/", prefix + "/alt/"), **({"body": r1["body"]} if "body" in r1 else {})}]
                api.tags.add("mixin-additional-binding-other-uri")
            doc_rules[sel] = r1
    api.info["rule_by_selector"] = doc_rules
    # google.api.Http: when several rules name one selector, the LAST one is in effect (a generic block followed by overrides)
    shadowed = []
    for sel, r in doc_rules.items():
        if rng.random() < 0.3:
            verb = [k for k in r if k in ("get", "post", "delete")][0]
            old = {"selector": sel, ("post" if verb == "get" else verb): r[verb].replace(prefix + "/", "/v0/overridden/")}
            if verb == "get" or "body" not in r:
                old["body"] = "*"
            shadowed.append(old)
            api.tags.add("mixin-selector-listed-twice")
    # http rules for a mixin API that is NOT named under `apis` (a YAML shared between surfaces, or left over): nothing of it is exposed,
    # whatever else the API contains (a long-running method, IAM types, ...)
    stray = []
    for m in unlisted:
        if m in mixins:
            continue
        for sel, r0 in MIXIN_RULES[m][1]:
            stray.append({"selector": sel, **{k: (v.replace("/v1/", prefix + "/") if isinstance(v, str) and v.startswith("/v1/") else v) for k, v in r0.items()}})
        api.tags.add("rules-for-unlisted-mixin:" + m)
    api.info["unlisted_with_rules"] = [m for m in unlisted if m not in mixins]
    pub_ = None
    if internal_own and own_iam:
        # selective generation in keep-as-internal mode with the API's own IAM RPCs left off the list: they live on as _<method>, and
        # the IAM mixins yield to them all the same
        listed_ = [f"{pkg}.{sv.name}.{m_.name}" for sv in f.pb.service for m_ in sv.method if m_.name not in own_iam]
        pub_ = selective_publishing(pkg, listed_, internal=True)
        api.tags.add("own-iam-rpcs-internal")
    api.info["internal_own"] = bool(pub_)
    text = service_yaml(api, mixins=mixins, rules={m: [] for m in mixins}, publishing=pub_,
                        extra_rules=shadowed + stray + [{"selector": sel, **r} for sel, r in doc_rules.items()])
    api.aux["service-yaml"] = ("svc.yaml", text)
    api.options = [f"transport={transport}", "autogen-snippets=false"] + (["add-iam-methods"] if add_iam else [])
    api.info.update(pkg=pkg, version=ver, ns=["vp"], name=name, host=f"{name}.googleapis.com")
    return api


def prefix_packages_api(rng, name, layout=None, services=False):
    """Target files in several packages under one version whose names are character prefixes of one another
    (x.v1.admin / x.v1.admin_types / x.v1.adm): the root package must not depend on which one a set yields first (C10)."""
    api = Api(name)
    ver = "v1"
    base = f"vp.{name}.{ver}"
    subs = rng.choice([["admin", "admin_types"], ["admin_types", "admin"], ["adm", "admin", "admin_types"], ["core", "core_v2_types"],
                       # sibling sub-packages next to a root file: the ORDER of the response files must not depend on a set either
                       ["", "birds", "fish", "mammals"], ["", "zeta", "alpha", "mid", "beta"]])
    if layout == "siblings":
        subs = rng.choice([["", "birds", "fish", "mammals"], ["", "zeta", "alpha", "mid", "beta"]])
    elif layout == "prefix":
        subs = rng.choice([["admin", "admin_types"], ["admin_types", "admin"], ["adm", "admin", "admin_types"], ["core", "core_v2_types"]])
    elif layout == "prefix3":
        # sibling sub-packages, one a character prefix of another, plus one that shares nothing
        subs = rng.choice([["catalog", "catalog_admin", "shelves"], ["shelves", "kind", "kinds"], ["adm", "other", "admin", "admin_types"],
                           ["catalog_admin", "zebra", "catalog"]])
    files = []
    for i, sub in enumerate(subs):
        pkg = f"{base}.{sub}" if sub else base
        f = File(f"{pkg.replace('.', '/')}/things{i}.proto", pkg, deps=list(STD_DEPS) + [x.pb.name for x in files])
        m = f.message(f"Thing{i}")
        m.field("name", "string")
        if files:
            m.field("prev", f".{files[-1].pb.package}.Thing{i - 1}")
        f.enum(f"Kind{i}", f"KIND{i}_UNSPECIFIED", f"K{i}_A")
        if services:
            sv = f.service(f"Svc{i}", host=f"{name}.googleapis.com")
            sv.rpc(f"Get{i}", f".{pkg}.Thing{i}", f".{pkg}.Thing{i}", http={"get": f"/v1/{{name=things{i}/*}}"})
        files.append(f)
        api.add(f)
    if layout == "prefix3":
        pass
    api.options = ["transport=grpc+rest", "autogen-snippets=false", "metadata"]
    api.info.update(pkg=base, version=ver, ns=["vp"], name=name, host=f"{name}.googleapis.com")
    api.tags.add("packages-that-are-character-prefixes")
    return api


CORE_NAMESAKES = ["operation", "operation_async", "pagers", "exceptions", "gapic_v1", "client_options", "transports", "client",
                   "async_client", "operations_v1", "retries"]


def core_namesake_api(rng, name, fname, flat_operation=False):
    """A target proto file whose module base name is that of a module the emitted clients import from google.api_core or from the
    service package itself (operation.proto as in aiplatform); its types are used as request field, response, LRO result and paged
    item (C12: two imported modules share a base name)."""
    api = Api(name)
    ver = "v1"
    pkg = f"vp.{name}.{ver}"
    P = "." + pkg
    dirp = f"vp/{name}/{ver}"
    fx = File(f"{dirp}/{fname}.proto", pkg, deps=[])
    th = fx.message("Thing")
    th.field("name", "string")
    th.field("count", "int32")
    kind = fx.enum("ThingKind", "THING_KIND_UNSPECIFIED", "SMALL", "LARGE")
    th.field("kind", kind)
    mt = fx.message("RunMetadata")
    mt.field("percent", "int32")
    f = File(f"{dirp}/{name}.proto", pkg, deps=list(STD_DEPS) + [fx.pb.name])
    api.add(fx)
    api.add(f)
    q = f.message("StartRequest")
    q.field("name", "string")
    q.field("thing", P + ".Thing")
    q.field("operation", "string")
    lq = f.message("ListThingsRequest")
    lq.field("parent", "string")
    lq.field("page_size", "int32")
    lq.field("page_token", "string")
    lr = f.message("ListThingsResponse")
    lr.field("things", P + ".Thing", repeated=True)
    lr.field("next_page_token", "string")
    s = f.service("Things", host=f"{name}.googleapis.com")
    s.rpc("GetThing", P + ".StartRequest", P + ".Thing", http={"get": "/v1/{name=things/*}"}, sigs=["name"])
    s.rpc("Run", P + ".StartRequest", ".google.longrunning.Operation", http={"post": "/v1/{name=things/*}:run"}, body="*",
          sigs=["name,operation" if flat_operation else "name,thing"], lro=("Thing", "RunMetadata"))
    s.rpc("ListThings", P + ".ListThingsRequest", P + ".ListThingsResponse", http={"get": "/v1/{parent=shelves/*}/things"}, sigs=["parent"])
    api.options = ["transport=grpc", "autogen-snippets=false"]
    api.info.update(pkg=pkg, version=ver, ns=["vp"], name=name, host=f"{name}.googleapis.com", namesake=fname, flat_operation=flat_operation)
    api.tags.add("core-namesake:" + fname)
    return api


def twin_module_api(rng, name):
    """Two proto-plus modules of one base name (a root file and a file of a sub-package, both defining a message of the same
    name) used by one service, the references interleaved with references to a third module (C03)."""
    api = Api(name)
    ver = "v1"
    pkg = f"vp.{name}.{ver}"
    P = "." + pkg
    dirp = f"vp/{name}/{ver}"
    base = rng.choice(["common", "shared", "items"])
    fr = File(f"{dirp}/{base}.proto", pkg, deps=[])
    it = fr.message("Item")
    it.field("name", "string")
    it.field("count", "int32")
    fsub = File(f"{dirp}/sub/{base}.proto", pkg + ".sub", deps=[])
    its = fsub.message("Item")
    its.field("unit", "string")
    its.field("count", "int32")
    its.field("weight", "double")
    # ... and an enum of the same name with the same numbers under other names: enum-typed fields need the module alias too
    lv = fr.enum("Level", "LEVEL_UNSPECIFIED", "LOW", "HIGH")
    lvs = fsub.enum("Level", "LEVEL_UNSPECIFIED", "USER", "ROOT")
    f = File(f"{dirp}/{name}.proto", pkg, deps=list(STD_DEPS) + [fr.pb.name, fsub.pb.name])
    for x in (fr, fsub, f):
        api.add(x)
    ack = f.message("Ack")
    ack.field("ok", "bool")
    ack.field("note", "string")
    if rng.random() < 0.7:
        # both modules reached ONLY through enum-typed fields from this message
        bk = f.message("Book")
        bk.field("title", "string")
        bk.field("level", lv)
        bk.field("admin_level", lvs)
        bk.field("admin_levels", lvs, repeated=True)
    s = f.service("Catalog", host=f"{name}.googleapis.com")
    rpcs = [("Stock", P + ".sub.Item", P + ".Ack", {}), ("Order", P + ".Item", P + ".Ack", {}), ("Lookup", P + ".Ack", P + ".sub.Item", {}),
            ("Find", P + ".Ack", P + ".Item", {}), ("Watch", P + ".Ack", P + ".sub.Item", {"ss": True}), ("Feed", P + ".sub.Item", P + ".Ack", {"cs": True})]
    if rng.random() < 0.5:
        rpcs.insert(0, ("Weigh", P + ".Item", P + ".sub.Item", {}))      # adjacent references as well
    for nm, i_, o_, kw in rpcs:
        s.rpc(nm, i_, o_, **kw)
    if any(m.name == "Book" for m in f.pb.message_type):
        s.rpc("GetBook", P + ".Ack", P + ".Book")
        s.rpc("PutBook", P + ".Book", P + ".Ack", sigs=["title,admin_level"])
    api.options = ["transport=grpc", "autogen-snippets=false"]
    api.info.update(pkg=pkg, version=ver, ns=["vp"], name=name, host=f"{name}.googleapis.com")
    api.tags.add("twin-proto-plus-modules")
    return api


def extop_api(rng, name, scopes=0, transport="grpc"):
    """Compute-style extended operations (google.cloud.extended_operations): initiating RPCs name a polling service (C16).
    scopes > 0 adds that many further polling services (Zone, Global, ...), each used by one more RPC of Addresses (C10: a
    service polled through several operation services)."""
    from google.cloud import extended_operations_pb2 as xo
    api = Api(name)
    ver = "v1"
    pkg = f"vp.{name}.{ver}"
    P = "." + pkg
    f = File(f"vp/{name}/{ver}/{name}.proto", pkg, deps=list(STD_DEPS) + ["google/cloud/extended_operations.proto"])
    api.dep_mods += ["google.cloud.extended_operations_pb2"]
    api.add(f)
    op = f.message("Operation")
    st = op.enum("Status", "UNDEFINED_STATUS", "DONE", "PENDING", "RUNNING")
    for nm, typ, mapping in (("name", "string", xo.NAME), ("http_error_message", "string", xo.ERROR_MESSAGE),
                             ("http_error_status_code", "int32", xo.ERROR_CODE), ("status", st, xo.STATUS)):
        fld = op.field(nm, typ, optional=True)
        fld.options.Extensions[xo.operation_field] = mapping
    op.field("target", "string")
    gq = f.message("GetRegionOperationRequest")
    fld = gq.field("operation", "string", required=True)
    fld.options.Extensions[xo.operation_response_field] = "name"
    gq.field("project", "string", required=True)
    gq.field("region", "string", required=True)
    addr = f.message("Address")
    addr.field("address", "string")
    addr.field("labels_note", "string")
    for rq in ("InsertAddressRequest", "DeleteAddressRequest", "GetAddressRequest", "ListAddressesRequest"):
        q = f.message(rq)
        q.field("project", "string")
        q.field("region", "string")
        if rq == "InsertAddressRequest":
            q.field("address_resource", P + ".Address")
        elif rq == "ListAddressesRequest":
            q.field("max_results", "uint32")
            q.field("page_token", "string")
        else:
            q.field("address", "string")
    al = f.message("AddressList")
    al.field("items", P + ".Address", repeated=True)
    al.field("next_page_token", "string")
    unused = f.message("NeverUsed")
    unused.field("x", "string")
    host = f"{name}.googleapis.com"
    ops = f.service("RegionOperations", host=host)
    m = ops.rpc("Get", P + ".GetRegionOperationRequest", P + ".Operation",
                http={"get": "/compute/v1/projects/{project}/regions/{region}/operations/{operation}"}, sigs=["project,region,operation"])
    ops.pb.method[-1].options.Extensions[xo.operation_polling_method] = True
    ops.rpc("Wait", P + ".GetRegionOperationRequest", P + ".Operation",
            http={"post": "/compute/v1/projects/{project}/regions/{region}/operations/{operation}/wait"})
    ad = f.service("Addresses", host=host)
    base = "/compute/v1/projects/{project}/regions/{region}/addresses"
    ad.rpc("Insert", P + ".InsertAddressRequest", P + ".Operation", http={"post": base}, body="address_resource", sigs=["project,region,address_resource"])
    ad.pb.method[-1].options.Extensions[xo.operation_service] = "RegionOperations"
    ad.rpc("Delete", P + ".DeleteAddressRequest", P + ".Operation", http={"delete": base + "/{address}"}, sigs=["project,region,address"])
    ad.pb.method[-1].options.Extensions[xo.operation_service] = "RegionOperations"
    ad.rpc("Get", P + ".GetAddressRequest", P + ".Address", http={"get": base + "/{address}"}, sigs=["project,region,address"])
    ad.rpc("List", P + ".ListAddressesRequest", P + ".AddressList", http={"get": base}, sigs=["project,region"])
    extended = ["Addresses.Insert", "Addresses.Delete"]
    extra = [("Zone", ["project", "zone"]), ("Global", ["project"]), ("GlobalOrganization", ["parent_id"]), ("Interconnect", ["project", "link"]),
             ("Fleet", ["project", "fleet"])]
    rng.shuffle(extra)
    for scope, keys in extra[:scopes]:
        gq2 = f.message(f"Get{scope}OperationRequest")
        fld = gq2.field("operation", "string", required=True)
        fld.options.Extensions[xo.operation_response_field] = "name"
        for k in keys:
            gq2.field(k, "string", required=True)
        ops2 = f.service(f"{scope}Operations", host=host)
        ops2.rpc("Get", P + f".Get{scope}OperationRequest", P + ".Operation",
                 http={"get": "/compute/v1/" + "/".join(f"{k}s/{{{k}}}" for k in keys) + "/operations/{operation}"}, sigs=[",".join(keys + ["operation"])])
        ops2.pb.method[-1].options.Extensions[xo.operation_polling_method] = True
        q = f.message(f"Move{scope}AddressRequest")
        for k in keys:
            q.field(k, "string")
        q.field("address", "string")
        ad.rpc(f"Move{scope}", P + f".Move{scope}AddressRequest", P + ".Operation",
               http={"post": "/compute/v1/" + "/".join(f"{k}s/{{{k}}}" for k in keys) + "/addresses/{address}/move"}, sigs=[",".join(keys + ["address"])])
        ad.pb.method[-1].options.Extensions[xo.operation_service] = f"{scope}Operations"
        extended.append(f"Addresses.Move{scope}")
        api.tags.add("several-operation-services-for-one-service")
    api.options = [f"transport={transport}", "autogen-snippets=false"]
    api.info.update(pkg=pkg, version=ver, ns=["vp"], name=name, host=host,
                    extended=extended, polling=("RegionOperations", "Get"))
    api.tags.add("extended-operations")
    return api


def selective_publishing(pkg, methods, internal=False):
    """publishing section of a service YAML for selective GAPIC generation."""
    sel = {"methods": list(methods)}
    if internal:
        sel["generate_omitted_as_internal"] = True
    return {"library_settings": [{"version": pkg, "python_settings": {"common": {"selective_gapic_generation": sel}}}]}


def selective_api(rng, name):
    """Type graphs with sharing, nesting, recursion, enum-only files and resource references over two services (C16)."""
    api = Api(name)
    tags = api.tags
    ver = "v1"
    pkg = f"vp.{name}.{ver}"
    P = "." + pkg
    dirp = f"vp/{name}/{ver}"
    fe = File(f"{dirp}/states.proto", pkg, deps=[])            # enums only
    fs = File(f"{dirp}/shared.proto", pkg, deps=list(STD_DEPS) + [fe.pb.name])
    fo = File(f"{dirp}/ops_meta.proto", pkg, deps=list(STD_DEPS))   # LRO types, not imported by the service file
    f = File(f"{dirp}/{name}.proto", pkg, deps=list(STD_DEPS) + [fe.pb.name, fs.pb.name])
    for x in (fe, fs, fo, f):
        api.add(x)
    st = fe.enum("ShelfState", "SHELF_STATE_UNSPECIFIED", "OPEN", "CLOSED")
    gn = fe.enum("Genre", "GENRE_UNSPECIFIED", "FICTION", "SCIENCE")
    un = fe.enum("UnusedEnum", "UNUSED_ENUM_UNSPECIFIED", "U1")
    meta = fo.message("JobMeta")
    meta.field("percent", "int32")
    res = fo.message("JobResult")
    res.field("summary", "string")
    lonely = fo.message("LonelyMeta")
    lonely.field("x", "string")
    # shared types
    tag = fs.message("Tag")
    tag.field("key", "string")
    tag.field("genre", gn)
    outer = fs.message("Outer")
    outer.field("label", "string")
    inner = outer.nested("Inner")
    inner.field("depth", "int32")
    inner.field("tags", P + ".Tag", repeated=True)
    deep = inner.nested("Deep")
    deep.field("v", "string")
    ik = outer.enum("Kind", "KIND_UNSPECIFIED", "SMALL", "LARGE")
    outer.field("kind", ik)
    tree = fs.message("Tree")
    tree.field("value", "string")
    tree.field("children", P + ".Tree", repeated=True)
    tree.map("by_name", "string", P + ".Tree")
    unused = fs.message("UnusedShared")
    unused.field("x", "string")
    # resources
    shelf = f.message("Shelf")
    shelf.resource(f"{name}.googleapis.com/Shelf", "shelves/{shelf}")
    shelf.field("name", "string")
    shelf.field("state", st)
    shelf.field("outer", P + ".Outer")
    book = f.message("Book")
    book.resource(f"{name}.googleapis.com/Book", "shelves/{shelf}/books/{book}")
    book.field("name", "string")
    book.field("genre", gn)
    book.field("tags", P + ".Tag", repeated=True)
    book.field("tree", P + ".Tree")
    # types reached ONLY as the value type of a map field (the synthesised entry message is the only edge to them)
    chap = fs.message("Chapter")
    chap.field("title", "string")
    chap.field("kind", chap.enum("ChapterKind", "CHAPTER_KIND_UNSPECIFIED", "PROLOGUE", "BODY"))
    book.map("chapters", "string", P + ".Chapter")
    book.map("moods", "int32", fe.enum("Mood", "MOOD_UNSPECIFIED", "CALM", "TENSE"))
    author = f.message("Author")
    author.resource(f"{name}.googleapis.com/Author", "authors/{author}")
    author.field("name", "string")
    author.field("deep", P + ".Outer.Inner.Deep")
    s1 = f.service("Library", host=f"{name}.googleapis.com")
    s2 = f.service("Registry", host=f"{name}.googleapis.com")
    q = f.message("GetShelfRequest")
    q.field("name", "string", ref=f"{name}.googleapis.com/Shelf")
    s1.rpc("GetShelf", P + ".GetShelfRequest", P + ".Shelf", http={"get": "/v1/{name=shelves/*}"}, sigs=["name"])
    q = f.message("GetBookRequest")
    q.field("name", "string", ref=f"{name}.googleapis.com/Book")
    s1.rpc("GetBook", P + ".GetBookRequest", P + ".Book", http={"get": "/v1/{name=shelves/*/books/*}"}, sigs=["name"])
    q = f.message("ListBooksRequest")
    q.field("parent", "string", child_ref=f"{name}.googleapis.com/Book")
    q.field("page_size", "int32")
    q.field("page_token", "string")
    o = f.message("ListBooksResponse")
    o.field("books", P + ".Book", repeated=True)
    o.field("next_page_token", "string")
    s1.rpc("ListBooks", P + ".ListBooksRequest", P + ".ListBooksResponse", http={"get": "/v1/{parent=shelves/*}/books"}, sigs=["parent"])
    q = f.message("TagInnerRequest")
    q.field("name", "string")
    q.field("inner", P + ".Outer.Inner")          # only the nested type is referenced, not Outer
    q.field("author", "string", ref=f"{name}.googleapis.com/Author")   # resource reached only through a reference
    s1.rpc("TagInner", P + ".TagInnerRequest", P + ".Tag", http={"post": "/v1/{name=shelves/*}:tagInner"}, body="*")
    q = f.message("ImportBooksRequest")
    q.field("parent", "string")
    q.field("source", "string")
    s1.rpc("ImportBooks", P + ".ImportBooksRequest", ".google.longrunning.Operation",
           http={"post": "/v1/{parent=shelves/*}/books:import"}, body="*", lro=("JobResult", "JobMeta"))
    q = f.message("PingRequest")
    q.field("note", "string")
    s2.rpc("Ping", P + ".PingRequest", ".google.protobuf.Empty", http={"post": "/v1/ping"}, body="*")
    q = f.message("GrowRequest")
    q.field("tree", P + ".Tree")
    q.field("kind", "enum:" + P + ".Outer.Kind")
    s2.rpc("Grow", P + ".GrowRequest", P + ".Tree", http={"post": "/v1/grow"}, body="*")
    # a resource message declared in a target file that comes after the service file in the request and is not imported by it
    # (references are strings): reached only through the resource_reference of a void RPC's request
    fl = File(f"{dirp}/zz_vaults.proto", pkg, deps=list(STD_DEPS) + [fe.pb.name])
    api.add(fl)
    vd = fl.message("VaultDetail")
    vd.field("capacity", "int32")
    vd.field("state", st)
    vault = fl.message("Vault")
    vault.resource(f"{name}.googleapis.com/Vault", "vaults/{vault}")
    vault.field("name", "string")
    vault.field("detail", P + ".VaultDetail")
    fl.message("UnusedLate").field("x", "string")
    q = f.message("DeleteVaultRequest")
    q.field("name", "string", ref=f"{name}.googleapis.com/Vault")
    s1.rpc("DeleteVault", P + ".DeleteVaultRequest", ".google.protobuf.Empty", http={"delete": "/v1/{name=vaults/*}"}, sigs=["name"])
    # a service that lives alone in that other file: with keep-as-internal, a file without any listed RPC still has to be rewritten
    sv = fl.service("Vaults", host=f"{name}.googleapis.com")
    q = fl.message("SealVaultRequest")
    q.field("name", "string")
    sv.rpc("SealVault", P + ".SealVaultRequest", P + ".Vault", http={"post": "/v1/{name=vaults/*}:seal"}, body="*")
    # a service whose name starts with another service's name, sharing an RPC name with it
    s3 = f.service("LibraryAdmin", host=f"{name}.googleapis.com")
    s3.rpc("GetShelf", P + ".GetShelfRequest", P + ".Shelf", http={"get": "/v1/admin/{name=shelves/*}"}, sigs=["name"])
    # an LRO whose response lives in a dependency and whose metadata type nothing else reaches
    pm = fo.message("PurgeMeta")
    pm.field("purged", "int32")
    q = f.message("PurgeBooksRequest")
    q.field("parent", "string")
    s1.rpc("PurgeBooks", P + ".PurgeBooksRequest", ".google.longrunning.Operation",
           http={"post": "/v1/{parent=shelves/*}/books:purge"}, body="*",
           lro=("google.protobuf.Empty", rng.choice(["PurgeMeta", pkg + ".PurgeMeta"])))
    # an RPC whose type graph is drawn per case: oneof members, map values, a type used only here, an enum from the
    # enum-only file reached through a repeated field, a message of the LRO-only file reached through a field
    only = fs.message("OnlyForAnnotate")
    only.field("note", "string")
    only.field("states", st, repeated=True)
    q = f.message("AnnotateRequest")
    q.field("name", "string")
    choices = [("tag", P + ".Tag"), ("outer", P + ".Outer"), ("only", P + ".OnlyForAnnotate"), ("text", "string"), ("deep", P + ".Outer.Inner.Deep")]
    rng.shuffle(choices)
    for nm, t in choices[:rng.randint(2, 4)]:
        q.field("as_" + nm, t, oneof="what")
    if rng.random() < 0.6:
        q.map("tags_by_key", "string", rng.choice([P + ".Tag", P + ".OnlyForAnnotate", "enum:" + P + ".Genre"]))
    if rng.random() < 0.5:
        q.field("shelf", "string", ref=f"{name}.googleapis.com/Shelf")
    o = f.message("AnnotateResponse")
    o.field("genres", gn, repeated=True)
    if rng.random() < 0.5:
        o.field("tree", P + ".Tree")
    s2.rpc("Annotate", P + ".AnnotateRequest", P + ".AnnotateResponse", http={"post": "/v1/annotate"}, body="*")
    api.options = ["transport=grpc", "autogen-snippets=false"]
    api.info.update(pkg=pkg, version=ver, ns=["vp"], name=name, host=f"{name}.googleapis.com")
    return api


def shared_types_api(rng, name):
    """Selective generation where RPCs share ALL their types (C16): dropping an RPC prunes no message or enum of its file; a second
    file holds a service alone, using the first file's messages."""
    api = Api(name)
    ver = "v1"
    pkg = f"vp.{name}.{ver}"
    P = "." + pkg
    dirp = f"vp/{name}/{ver}"
    f = File(f"{dirp}/{name}.proto", pkg, deps=list(STD_DEPS))
    f2 = File(f"{dirp}/painter.proto", pkg, deps=list(STD_DEPS) + [f.pb.name])
    api.add(f)
    api.add(f2)
    shape = f.message("Shape")
    shape.field("name", "string")
    shape.field("sides", "int32")
    shape.field("tone", shape.enum("Tone", "TONE_UNSPECIFIED", "DARK", "LIGHT"))
    q = f.message("GetShapeRequest")
    q.field("name", "string")
    q.field("view", f.enum("View", "VIEW_UNSPECIFIED", "BASIC", "FULL"))
    q.field("request_id", "string", uuid4=True)      # auto-populated where the method settings say so (also on internal methods)
    api.info["autopop_candidates"] = ["Shapes.GetShape", "Shapes.FetchShape", "Painter.Repaint"]
    s = f.service("Shapes", host=f"{name}.googleapis.com")
    s.rpc("GetShape", P + ".GetShapeRequest", P + ".Shape", http={"get": "/v1/{name=shapes/*}"}, sigs=["name"])
    s.rpc("FetchShape", P + ".GetShapeRequest", P + ".Shape", http={"get": "/v1/{name=shapes/*}:fetch"})
    s.rpc("ReviseShape", P + ".Shape", P + ".Shape", http={"post": "/v1/{name=shapes/*}:revise"}, body="*")
    s.rpc("DropShape", P + ".GetShapeRequest", ".google.protobuf.Empty", http={"delete": "/v1/{name=shapes/*}"})
    s2 = f2.service("Painter", host=f"{name}.googleapis.com")
    s2.rpc("Paint", P + ".Shape", P + ".Shape", http={"post": "/v1/{name=shapes/*}:paint"}, body="*")
    s2.rpc("Repaint", P + ".GetShapeRequest", P + ".Shape", http={"post": "/v1/{name=shapes/*}:repaint"}, body="*")
    api.options = ["transport=grpc", "autogen-snippets=false"]
    api.info.update(pkg=pkg, version=ver, ns=["vp"], name=name, host=f"{name}.googleapis.com")
    api.tags.add("rpcs-sharing-all-their-types")
    return api


def sample_api(rng, name, transport="grpc"):
    """Calling forms x required-field kinds for sample generation (C14)."""
    api = conventional(rng, name, {"version": rng.choice(["v1", "v1beta1"]), "ns": ["vp"], "exotic": False, "streams": True,
                                   "foreign": True, "reserved": False, "shuffle_numbers": False})
    tags = api.tags
    pkg = api.info["pkg"]
    P = "." + pkg
    f = [x for x in api.files if x.pb.name.endswith(f"/{name}.proto")][0]
    color = f.enum("Hue", "HUE_UNSPECIFIED", "WARM", "COLD")
    leafm = f.message("Spec")
    leafm.field("code", "string", required=True)
    leafm.field("weight", "double", required=True)
    leafm.field("hue", color, required=True)
    leafm.field("comment", "string")
    deepm = f.message("Envelope")
    deepm.field("spec", P + ".Spec", required=True)
    deepm.field("count", "int64", required=True)
    deepm.field("free", "string")
    svc = build.Svc(f.pb.service[0], f)
    kinds = [("string", "text"), ("int32", "num"), ("bool", "flag"), ("double", "ratio"), ("bytes", "blob"), ("uint64", "big"), ("float", "small")]
    for i in range(rng.randint(3, 5)):
        q = f.message(f"Do{i}Request")
        q.field("name", "string", required=True, ref=f"{name}.googleapis.com/Widget")
        for t, nm in rng.sample(kinds, rng.randint(1, 4)):
            q.field(f"req_{nm}", t, required=True)
        if rng.random() < 0.7:
            q.field("hue", color, required=True)
        if rng.random() < 0.7:
            q.field("spec", P + ".Spec", required=True)
        if rng.random() < 0.5:
            q.field("envelope", P + ".Envelope", required=True)
        if rng.random() < 0.5:
            q.field("names", "string", repeated=True, required=True)
        if rng.random() < 0.6:
            # REQUIRED repeated fields of the other scalar kinds (their mock values are Python lists in the sample source)
            for t, nm in rng.sample([("bool", "toggles"), ("int32", "counts"), ("double", "ratios"), ("bytes", "blobs"), (color, "hues"),
                                     ("uint64", "bigs")], rng.randint(1, 3)):
                q.field(nm, t, repeated=True, required=True)
                tags.add("sample-required-repeated:" + nm)
        if rng.random() < 0.6:
            q.field("as_text", "string", oneof="payload")
            q.field("as_spec", P + ".Spec", oneof="payload")
        if rng.random() < 0.4:
            q.field("pick_num", "int32", oneof="choice")
            q.field("pick_hue", color, oneof="choice")
        # google.api.field_behavior is a list: REQUIRED next to another behaviour, in either order, is REQUIRED all the same
        from google.api import field_behavior_pb2 as fb_
        q.field("req_pinned", "string", behaviors=[fb_.REQUIRED, fb_.IMMUTABLE])
        q.field("req_seed", "int32", behaviors=[fb_.INPUT_ONLY, fb_.REQUIRED])
        tags.add("sample-required-with-second-behaviour")
        q.field("note", "string")
        q.field("detail", P + ".Spec")
        o = f.message(f"Do{i}Response")
        o.field("ok", "bool")
        form = rng.choice(["unary", "unary", "server", "lro"])
        if form == "unary":
            # signatures with dotted (nested) paths and reserved-word leaves: the client's keyword is the leaf name
            sig = rng.choice([["name"], ["name,detail.code"], ["name,note", "name,detail.comment,note"], ["name,detail.hue"], ["name"]])
            if any("." in x for x in sig):
                tags.add("sample-dotted-signature")
            svc.rpc(f"Do{i}", P + f".Do{i}Request", P + f".Do{i}Response", http={"post": f"/v1/{{name=widgets/*}}:do{i}"}, body="*", sigs=sig)
        elif form == "server":
            svc.rpc(f"Do{i}", P + f".Do{i}Request", P + f".Do{i}Response", ss=True, http={"post": f"/v1/{{name=widgets/*}}:do{i}"}, body="*")
        else:
            svc.rpc(f"Do{i}", P + f".Do{i}Request", ".google.longrunning.Operation", http={"post": f"/v1/{{name=widgets/*}}:do{i}"}, body="*",
                    lro=(f"Do{i}Response", f"Do{i}Request"))
        tags.add("sample-form:" + form)
    # services of one package served from different hosts: the region tag is per service
    from google.api import client_pb2
    for fl in api.files:
        for i, sv in enumerate(fl.pb.service):
            if sv.options.HasExtension(client_pb2.default_host) and (i or fl is not f) and rng.random() < 0.6:
                sv.options.Extensions[client_pb2.default_host] = rng.choice([f"{name}admin.example.com", f"other-{name}.googleapis.com:443",
                                                                             f"{sv.name.lower()}.{name}.example.org"])
                tags.add("service-on-another-host")
    api.options = [f"transport={transport}", "autogen-snippets"]
    return api
