"""Reference descriptor model: dynamic messages over a private pool built from
the *input* FileDescriptorProtos.  Random valuations with boundary members,
python-native projection (for dict-form requests / kwargs), typed-JSON codec.

Never imports gapic or any emitted code.
"""
import base64

from google.protobuf import descriptor_pool, message_factory
from google.protobuf.descriptor import FieldDescriptor as FD

from vlib import build  # noqa: registers extensions


class Model:
    def __init__(self, req_or_files):
        files = getattr(req_or_files, "proto_file", req_or_files)
        self.files = list(files)
        self.pool = descriptor_pool.DescriptorPool()
        for p in self.files:
            self.pool.Add(p)
        for p in self.files:
            self.pool.FindFileByName(p.name)

    def desc(self, full_name):
        return self.pool.FindMessageTypeByName(full_name.lstrip("."))

    def enum(self, full_name):
        return self.pool.FindEnumTypeByName(full_name.lstrip("."))

    def cls(self, full_name_or_desc):
        d = self.desc(full_name_or_desc) if isinstance(full_name_or_desc, str) else full_name_or_desc
        return message_factory.GetMessageClass(d)

    def new(self, full_name):
        return self.cls(full_name)()

    def parse(self, full_name, data):
        m = self.new(full_name)
        m.ParseFromString(data)
        return m

    def service(self, full_name):
        return self.pool.FindServiceByName(full_name.lstrip("."))


# ---------------------------------------------------------------------------
# value pools

_I32 = [0, 1, -1, 7, 2**31 - 1, -2**31, 12345]
_U32 = [0, 1, 7, 2**32 - 1, 54321]
_I64 = [0, 1, -1, 2**63 - 1, -2**63, 2**53 + 1, 99]
_U64 = [0, 1, 2**64 - 1, 2**53 + 1, 42]
_F = [0.0, 1.5, -2.25, 1e10, -0.0, 3.0, 0.1, 123456.75]
_D = [0.0, 1.5, -2.25, 1e300, 5e-324, 0.1, 2.0**60]
_S = ["", "a", "x y&z=%+", "ü☃", "q\"'\\", "long " * 30, "true", "0", "a/b", "UPPER_lower-1.~"]
_B = [b"", b"\x00", b"\x00\xff\xfe", b"abc", bytes(range(256)), b"\n\r\t"]

INT_TYPES = {
    FD.TYPE_INT32: _I32, FD.TYPE_SINT32: _I32, FD.TYPE_SFIXED32: _I32,
    FD.TYPE_UINT32: _U32, FD.TYPE_FIXED32: _U32,
    FD.TYPE_INT64: _I64, FD.TYPE_SINT64: _I64, FD.TYPE_SFIXED64: _I64,
    FD.TYPE_UINT64: _U64, FD.TYPE_FIXED64: _U64,
}


def is_map(fd):
    return (fd.type == FD.TYPE_MESSAGE and fd.message_type.GetOptions().map_entry)


def has_presence(fd):
    return fd.has_presence


def scalar_value(rng, fd, nonzero=False):
    t = fd.type
    if t in INT_TYPES:
        pool = INT_TYPES[t]
    elif t == FD.TYPE_FLOAT:
        pool = _F
    elif t == FD.TYPE_DOUBLE:
        pool = _D
    elif t == FD.TYPE_BOOL:
        pool = [False, True]
    elif t == FD.TYPE_STRING:
        pool = _S
    elif t == FD.TYPE_BYTES:
        pool = _B
    elif t == FD.TYPE_ENUM:
        pool = [v.number for v in fd.enum_type.values]
    else:
        raise ValueError(t)
    if nonzero:
        pool = [v for v in pool if v] or pool
    return rng.choice(pool)


WKT_PREFIX = "google.protobuf."


def fill_wkt(rng, m, depth=0):
    n = m.DESCRIPTOR.full_name
    if n == "google.protobuf.Timestamp":
        m.seconds = rng.choice([0, 1, 1577934245, 253402300799, -62135596800, 86400])
        m.nanos = rng.choice([0, 5000, 999999999, 123456789, 500000000])
    elif n == "google.protobuf.Duration":
        s = rng.choice([0, 3, -3, 315576000000, 86400])
        m.seconds = s
        m.nanos = rng.choice([0, 5000, 999999999, 500000000]) * (-1 if s < 0 else 1)
    elif n == "google.protobuf.FieldMask":
        m.paths.extend(rng.sample(["a", "a.b", "display_name", "c_d.e_f"], rng.randint(0, 3)))
    elif n == "google.protobuf.Struct":
        for k in rng.sample(["k", "", "two words", "n"], rng.randint(0, 3)):
            fill_wkt(rng, m.fields[k], depth + 1)
    elif n == "google.protobuf.Value":
        kind = rng.choice(["null", "num", "str", "bool", "struct", "list"] if depth < 2 else ["null", "num", "str", "bool"])
        if kind == "null":
            m.null_value = 0
        elif kind == "num":
            m.number_value = rng.choice([0.0, 1.0, -2.5, 1e20])
        elif kind == "str":
            m.string_value = rng.choice(["", "s", "x y"])
        elif kind == "bool":
            m.bool_value = rng.choice([True, False])
        elif kind == "struct":
            m.struct_value.SetInParent()
            fill_wkt(rng, m.struct_value, depth + 1)
        else:
            m.list_value.SetInParent()
            fill_wkt(rng, m.list_value, depth + 1)
    elif n == "google.protobuf.ListValue":
        for _ in range(rng.randint(0, 3)):
            fill_wkt(rng, m.values.add(), depth + 1)
    elif n == "google.protobuf.Any":
        if rng.random() < 0.7:
            m.type_url = "type.googleapis.com/google.protobuf.Duration"
            m.value = b"\x08\x03"
    elif n == "google.protobuf.Empty":
        pass
    elif n.endswith("Value") and n.startswith(WKT_PREFIX):
        fd = m.DESCRIPTOR.fields_by_name["value"]
        setattr(m, "value", scalar_value(rng, fd))
    else:
        return False
    return True


CONTAINER_WKT = {"google.protobuf.Struct", "google.protobuf.Value", "google.protobuf.ListValue", "google.protobuf.Any"}


def fill(rng, m, depth=0, max_depth=3, p_set=0.6, skip=None, avoid_types=()):
    """Randomly populate message m in place.  skip: callable(fd, path)->bool."""
    d = m.DESCRIPTOR
    if d.full_name.startswith(WKT_PREFIX):
        if fill_wkt(rng, m):
            return m
    oneof_choice = {}
    for o in d.oneofs:
        if _is_synthetic(o):
            continue
        oneof_choice[o.name] = rng.choice(list(o.fields) + [None])
    for fd in d.fields:
        if skip and skip(fd):
            continue
        if fd.message_type is not None and fd.message_type.full_name in avoid_types:
            continue
        if is_map(fd) and fd.message_type.fields_by_name["value"].message_type is not None \
                and fd.message_type.fields_by_name["value"].message_type.full_name in avoid_types:
            continue
        o = fd.containing_oneof
        if o is not None and o.name in oneof_choice:
            if oneof_choice[o.name] is not fd:
                continue
            set_field(rng, m, fd, depth, max_depth, p_set, force=True, skip=skip, avoid_types=avoid_types)
            continue
        r = rng.random()
        if r > p_set:
            continue
        set_field(rng, m, fd, depth, max_depth, p_set, skip=skip, avoid_types=avoid_types)
    return m


def _is_wkt(m):
    # an empty google.protobuf.Value has no JSON form: well-known types are
    # always populated by fill_wkt, whatever the depth budget
    return m.DESCRIPTOR.full_name.startswith(WKT_PREFIX)


def _is_synthetic(o):
    """Synthetic oneof of a proto3 `optional` field (named _<field>, X-prefixed
    by vlib.build on a name clash)."""
    return len(o.fields) == 1 and o.name.lstrip("X") == "_" + o.fields[0].name


def set_field(rng, m, fd, depth=0, max_depth=3, p_set=0.6, force=False, skip=None, avoid_types=(), nonzero=False):
    if is_map(fd):
        kfd = fd.message_type.fields_by_name["key"]
        vfd = fd.message_type.fields_by_name["value"]
        mp = getattr(m, fd.name)
        for _ in range(rng.randint(1, 3)):
            k = scalar_value(rng, kfd)
            if kfd.type == FD.TYPE_STRING:
                k = rng.choice(["", "a", "k 2", "ü"])
            if vfd.type == FD.TYPE_MESSAGE:
                if depth < max_depth or _is_wkt(mp[k]):
                    fill(rng, mp[k], depth + 1, max_depth, p_set, skip, avoid_types)
                else:
                    mp[k].SetInParent()
            else:
                mp[k] = scalar_value(rng, vfd)
        return
    if fd.label == FD.LABEL_REPEATED:
        n = rng.randint(1, 3)
        rep = getattr(m, fd.name)
        for _ in range(n):
            if fd.type == FD.TYPE_MESSAGE:
                sub = rep.add()
                if depth < max_depth or _is_wkt(sub):
                    fill(rng, sub, depth + 1, max_depth, p_set, skip, avoid_types)
            else:
                rep.append(scalar_value(rng, fd))
        return
    if fd.type == FD.TYPE_MESSAGE:
        sub = getattr(m, fd.name)
        sub.SetInParent()
        if depth < max_depth or _is_wkt(sub):
            fill(rng, sub, depth + 1, max_depth, p_set, skip, avoid_types)
        return
    v = scalar_value(rng, fd, nonzero=nonzero)
    setattr(m, fd.name, v)


# ---------------------------------------------------------------------------
# python-native projection (what a user would write in a dict / kwargs)

class Unsupported(Exception):
    pass


def to_py(m):
    """Message -> dict with python-native leaves; keys are proto field names."""
    n = m.DESCRIPTOR.full_name
    if n in CONTAINER_WKT:
        raise Unsupported(n)
    out = {}
    for fd, v in m.ListFields():
        out[fd.name] = field_to_py(fd, v)
    return out


def field_to_py(fd, v):
    if is_map(fd):
        vfd = fd.message_type.fields_by_name["value"]
        return {"__map": [[k, (to_py(x) if vfd.type == FD.TYPE_MESSAGE else _leaf(vfd, x))] for k, x in v.items()]}
    if fd.label == FD.LABEL_REPEATED:
        return [(to_py(x) if fd.type == FD.TYPE_MESSAGE else _leaf(fd, x)) for x in v]
    if fd.type == FD.TYPE_MESSAGE:
        return to_py(v)
    return _leaf(fd, v)


def _leaf(fd, v):
    if fd.type == FD.TYPE_BYTES:
        return {"__b": base64.b64encode(v).decode()}
    if fd.type in (FD.TYPE_FLOAT, FD.TYPE_DOUBLE):
        return {"__f": repr(float(v))}
    return v


def decode_py(x):
    """Inverse of the JSON-able encoding (runs in the runner as well)."""
    if isinstance(x, dict):
        if "__b" in x and len(x) == 1:
            return base64.b64decode(x["__b"])
        if "__f" in x and len(x) == 1:
            return float(x["__f"])
        if "__map" in x and len(x) == 1:
            return {k: decode_py(v) for k, v in x["__map"]}
        return {k: decode_py(v) for k, v in x.items()}
    if isinstance(x, list):
        return [decode_py(v) for v in x]
    return x


def b64(b):
    return base64.b64encode(b).decode()


def unb64(s):
    return base64.b64decode(s)


def snake(name):
    """UpperCamel -> lower_snake (names here have no acronym runs)."""
    out = []
    for i, ch in enumerate(name):
        if ch.isupper() and i and (not name[i - 1].isupper()):
            out.append("_")
        out.append(ch.lower())
    return "".join(out)


def has_unknown(m):
    """True when the message (or a sub-message) carries unknown fields."""
    from google.protobuf import unknown_fields
    try:
        if len(unknown_fields.UnknownFieldSet(m)):
            return True
    except Exception:
        pass
    for fd, v in m.ListFields():
        if fd.type == FD.TYPE_MESSAGE:
            if is_map(fd):
                if fd.message_type.fields_by_name["value"].type == FD.TYPE_MESSAGE:
                    if any(has_unknown(x) for x in v.values()):
                        return True
            elif fd.label == FD.LABEL_REPEATED:
                if any(has_unknown(x) for x in v):
                    return True
            elif has_unknown(v):
                return True
    return False


def py_method(rpc_name):
    """Client method name of an RPC: snake_case, '_' appended for Python keywords."""
    import keyword
    n = snake(rpc_name)
    return n + "_" if keyword.iskeyword(n) else n
