"""Orchestration: plan cases, run each in its own subprocess with a watchdog,
classify violations against known_findings.json, write evidence and replays.

Exit status: 0 held on everything explored (known findings are printed),
1 at least one unlisted violation, 2 inconclusive (coverage floor missed).
"""
import argparse
import base64
import concurrent.futures as cf
import importlib
import json
import os
import shutil
import subprocess
import sys
import time

VERIF = os.path.dirname(os.path.dirname(os.path.abspath(__file__)))
PY = "/venv/bin/python"


def load_known():
    p = os.path.join(VERIF, "known_findings.json")
    if not os.path.exists(p):
        return []
    with open(p) as fh:
        return json.load(fh).get("findings", [])


def match_known(pid, v, known):
    for k in known:
        if k["property"] != pid or k["clause"] != v.get("clause"):
            continue
        mech = v.get("mech") or {}
        if all(mech.get(a) == b for a, b in (k.get("where") or {}).items()):
            return k
    return None


def _watchdog_only(res):
    """A case whose only 'failure' is our own wall-clock watchdog around the plugin run is undecided, never a violation
    (a loaded machine must not turn into an alarm); it is retried once with a three times larger budget."""
    vs = res.get("violations") or []
    def wd(v):
        d = v.get("detail")
        return v.get("clause") == "generation-fails" and isinstance(d, dict) and d.get("exc_type") == "Timeout"
    if vs and any(wd(v) for v in vs):
        rest = [v for v in vs if not wd(v)]
        if rest:
            res["violations"] = rest
            res.setdefault("counters", {})["generation_watchdog_fired"] = 1
            return res
        return {"verdict": "inconclusive", "why": "generation watchdog fired (plugin run exceeded its wall-clock budget)",
                "counters": {"generation_watchdog_fired": 1}}
    return res


def _run_worker(pid, case, timeout, gen_scale=1):
    from vlib import pipeline
    sdir = pipeline.new_scratch("w")
    cf_, of_ = os.path.join(sdir, "case.json"), os.path.join(sdir, "out.json")
    with open(cf_, "w") as fh:
        json.dump(case, fh)
    env = dict(os.environ)
    env["PYTHONPATH"] = VERIF
    env["PYTHONHASHSEED"] = "0"
    env["PYTHONDONTWRITEBYTECODE"] = "1"
    env["VP_CASE_SCRATCH"] = sdir
    env["VERIF_GEN_TIMEOUT_SCALE"] = str(gen_scale)
    t0 = time.time()
    try:
        p = subprocess.run([PY, "-m", "vlib.worker", pid, cf_, of_], env=env,
                           capture_output=True, timeout=timeout, cwd=sdir)
        err = p.stderr.decode("utf-8", "replace")
        if os.path.exists(of_):
            with open(of_) as fh:
                res = _watchdog_only(json.load(fh))
        else:
            res = {"verdict": "inconclusive", "why": "worker died rc=%s: %s" % (p.returncode, err[-1500:])}
    except subprocess.TimeoutExpired:
        res = {"verdict": "inconclusive", "why": "watchdog %ss" % timeout}
        subprocess.run(["pkill", "-f", sdir], capture_output=True)
    finally:
        shutil.rmtree(sdir, ignore_errors=True)
    res["wall_s"] = round(time.time() - t0, 2)
    res["case_id"] = case.get("id")
    return res


def run_cases(pid, mod, cases, parallel, timeout, progress=True):
    results = [None] * len(cases)
    with cf.ThreadPoolExecutor(parallel) as ex:
        futs = {ex.submit(_run_worker, pid, c, timeout): i for i, c in enumerate(cases)}
        done = 0
        for f in cf.as_completed(futs):
            i = futs[f]
            results[i] = f.result()
            done += 1
            if progress and (done % 10 == 0 or done == len(cases)):
                print(f"  [{pid}] {done}/{len(cases)} cases", file=sys.stderr, flush=True)
    # one retry for inconclusive cases, in a fresh subprocess, sequentially-ish
    retry = [i for i, r in enumerate(results) if r.get("verdict") == "inconclusive" and not r.get("no_retry")]
    if retry:
        with cf.ThreadPoolExecutor(max(1, parallel // 2)) as ex:
            futs = {ex.submit(_run_worker, pid, cases[i], timeout * 3, 3): i for i in retry}
            for f in cf.as_completed(futs):
                i = futs[f]
                r = f.result()
                r["retried"] = True
                results[i] = r
    return results


def main(argv=None):
    ap = argparse.ArgumentParser()
    ap.add_argument("pid")
    ap.add_argument("--tier", default=os.environ.get("VERIF_TIER") or "quick", choices=["quick", "thorough"])
    ap.add_argument("--replay")
    ap.add_argument("--only", help="case id substring filter")
    ap.add_argument("--max-cases", type=int)
    ap.add_argument("-j", type=int)
    args = ap.parse_args(argv)
    pid = args.pid.upper()
    seed = int(os.environ.get("VERIF_SEED") or 0)
    sys.path.insert(0, VERIF)
    mod = importlib.import_module("checks." + pid.lower())

    if args.replay:
        with open(args.replay) as fh:
            rp = json.load(fh)
        res = _run_worker(pid, rp["case"], getattr(mod, "CASE_TIMEOUT", 600) * 3, 3)
        print(json.dumps(res, indent=1)[:20000])
        known = load_known()
        bad = [v for v in res.get("violations", []) if not match_known(pid, v, known)]
        if bad:
            print(f"VIOLATION property={pid} replay={args.replay}")
            return 1
        return 0

    t0 = time.time()
    if hasattr(mod, "setup"):
        mod.setup()
    cases = mod.plan(seed, args.tier)
    if args.only:
        cases = [c for c in cases if args.only in str(c.get("id"))]
    if args.max_cases:
        cases = cases[: args.max_cases]
    parallel = args.j or getattr(mod, "PARALLEL", 14)
    timeout = getattr(mod, "CASE_TIMEOUT", 600)
    print(f"[{pid}] tier={args.tier} seed={seed} cases={len(cases)} parallel={parallel}", file=sys.stderr, flush=True)
    results = run_cases(pid, mod, cases, parallel, timeout)

    known = load_known()
    counters, sigs, samples = {}, set(), []
    evaluations = 0
    n_incon, incon_why = 0, []
    violations, known_hits = [], {}
    for case, r in zip(cases, results):
        evaluations += int(r.get("evaluations", 0))
        for k, v in (r.get("counters") or {}).items():
            counters[k] = counters.get(k, 0) + v
        for s in r.get("nontrivial_sigs") or []:
            sigs.add(json.dumps(s, sort_keys=True) if not isinstance(s, str) else s)
        if r.get("sample") is not None and len(samples) < 4:
            samples.append({"case": case.get("id"), **r["sample"]} if isinstance(r["sample"], dict) else r["sample"])
        if r.get("verdict") == "inconclusive":
            n_incon += 1
            incon_why.append(f"{case.get('id')}: {str(r.get('why'))[:300]}")
        for v in r.get("violations") or []:
            k = match_known(pid, v, known)
            if k is not None:
                known_hits.setdefault(k["id"], [k, 0])[1] += 1
            else:
                violations.append((case, r, v))

    rc = 0
    # replays
    rdir = os.path.join(VERIF, "replay", pid)
    if violations:
        os.makedirs(rdir, exist_ok=True)
    seen_paths = set()
    shown = {}
    for case, r, v in violations:
        path = os.path.join(rdir, f"{case.get('id')}.json")
        if path not in seen_paths:
            seen_paths.add(path)
            with open(path, "w") as fh:
                json.dump({"property": pid, "seed": seed, "tier": args.tier, "case": case,
                           "violations": r.get("violations"), "extra": r.get("replay_extra")}, fh, indent=1)
        shown[path] = shown.get(path, 0) + 1
        if shown[path] <= 3:
            print(f"VIOLATION property={pid} replay={path} clause={v.get('clause')} :: {str(v.get('detail'))[:400]}")
        elif shown[path] == 4:
            print(f"  (further violations of case {case.get('id')} are in the replay file)")
        rc = 1
    for kid, (k, n) in sorted(known_hits.items()):
        print(f"KNOWN-FINDING: property={pid} {k['what']} (id={kid}, seen {n}x this run)")

    floors = mod.floors(args.tier) if hasattr(mod, "floors") else {}
    missed = {k: (counters.get(k, 0), v) for k, v in floors.items() if counters.get(k, 0) < v}
    decided = len(cases) - n_incon
    inconclusive = False
    if not args.only and not args.max_cases:
        if missed or (len(cases) and decided < 0.9 * len(cases)) or len(cases) == 0:
            inconclusive = True
    level = getattr(mod, "LEVEL", "exploration")
    cov = {
        "evaluations": evaluations,
        "distinct_nontrivial": len(sigs),
        "rule": getattr(mod, "RULE", ""),
        "samples": samples or [{"note": "no sample recorded"}],
        "cases_planned": len(cases),
        "cases_decided": decided,
        "cases_inconclusive": n_incon,
        "inconclusive_reasons": incon_why[:10],
        "monitor_counters": counters,
        "known_findings_seen": {k: n for k, (_, n) in known_hits.items()},
    }
    if getattr(mod, "EXHAUSTIVE", False):
        cov["exhaustive"] = True
    if hasattr(mod, "extra_coverage"):
        cov.update(mod.extra_coverage(results, args.tier))
    ev = {
        "property_id": pid, "tier": args.tier, "seed": seed, "level": level,
        "coverage": cov,
        "assumptions": getattr(mod, "ASSUMPTIONS", []),
        "wall_s": round(time.time() - t0, 2),
        "violations": len(violations),
        "verdict": "violated" if rc == 1 else ("inconclusive" if inconclusive else "held-on-observed"),
    }
    if not args.only and not args.max_cases and not os.environ.get("VERIF_NO_EVIDENCE"):
        os.makedirs(os.path.join(VERIF, "evidence"), exist_ok=True)
        with open(os.path.join(VERIF, "evidence", pid + ".json"), "w") as fh:
            json.dump(ev, fh, indent=1, sort_keys=True)
    print(f"[{pid}] evaluations={evaluations} distinct={len(sigs)} decided={decided}/{len(cases)} "
          f"violations={len(violations)} known={sum(n for _, n in known_hits.values())} wall={ev['wall_s']}s")
    print(f"[{pid}] counters: " + json.dumps(counters, sort_keys=True))
    if rc == 0 and inconclusive:
        print(f"INCONCLUSIVE property={pid} missed_floors={missed} decided={decided}/{len(cases)} reasons={incon_why[:5]}")
        return 2
    return rc


if __name__ == "__main__":
    sys.exit(main())
