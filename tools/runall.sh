#!/bin/sh
# usage: tools/runall.sh [quick|thorough]   -- runs every claimed check on /repo as it is, prints one line per check
tier="${1:-quick}"
cd "$(dirname "$0")/.." || exit 3
rc_all=0
for id in $(python3 -c "import json; print(' '.join(c['property_id'] for c in json.load(open('MANIFEST.json'))['checks']))"); do
  start=$(date +%s)
  out=$(./check "$id" --tier "$tier" 2>/dev/null); rc=$?
  end=$(date +%s)
  echo "$id rc=$rc wall=$((end-start))s $(echo "$out" | grep -c '^VIOLATION') violations, $(echo "$out" | grep -c '^KNOWN-FINDING') known-finding lines"
  [ $rc -ne 0 ] && rc_all=1 && echo "$out" | grep -E '^(VIOLATION|INCONCLUSIVE)' | head -5
done
exit $rc_all
