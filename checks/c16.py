"""C16 — selective generation keeps exactly the listed RPCs and a closed set of types."""
import itertools
import json
import random
import re

from google.api import resource_pb2
from google.protobuf.descriptor import FieldDescriptor as FD

from vlib import apigen, pipeline, rdm, refs

ID = "C16"
LEVEL = "exploration"
RULE = ("cases = subsets of the 12 RPCs of a four-service API (one service alone in a second file) (one service name a prefix of another, sharing an RPC name) whose type graph has sharing, nesting (a nested type referenced without its "
        "parent), recursion, enum-only and LRO-only files and resource references (thorough: all subsets of size 1, 2, n-1, n and 420 seeded others x {omit, "
        "keep-as-internal}; quick: a seeded sample) plus a compute-style API with extended operations (every subset of its 6 RPCs in the thorough tier: method and class "
        "names, presence of the polling method a kept initiator needs, and the initiate-then-poll flow) and settings naming unknown / "
        "other-version methods; the imported selective "
        "library's client methods and classes are compared with two closures computed on the input descriptors (need: must be present "
        "and usable; may: upper bound), every kept RPC is called against the loopback server and its path/payload/header judged, and "
        "in internal mode names must follow the '_method' / 'Base<Client>' rule; distinct = distinct (subset, mode) that held")
ASSUMPTIONS = ["usable = instantiable, deserialize/serialize round trip and python-surface construction from random valuations",
               "extended operations: names, classes and the initiate-then-poll flow are judged on a compute-style API (sel-xop cases); the "
               "polling client is handed to the transport on the loopback channel (it would otherwise be built with default credentials)"]
CASE_TIMEOUT = 300
PARALLEL = 14


def floors(tier):
    k = 1 if tier == "quick" else 3
    return {"subsets": 25 * k, "types_required_usable": 300 * k, "types_absent_confirmed": 150 * k, "kept_rpc_calls": 100 * k, "internal_rpc_calls": 40 * k, "auto_populated_calls": 10 * k, "default_retry_probes": 80 * k, "default_deadlines_compared": 200 * k, "internal_cases": 8 * k,
            "rejections_checked": 3, "emptied_service_cases": 5 * k,
            "extended_operation_cases": 15 * k, "ext_op_flows": 10 * k}


def all_rpcs(req):
    return [(f"{p.package}.{s.name}.{m.name}", p, s, m) for p, s, m in refs.target_methods(req)]


def plan(seed, tier):
    rng = random.Random(seed)
    names = ["Library.GetShelf", "Library.GetBook", "Library.ListBooks", "Library.TagInner", "Library.ImportBooks", "Registry.Ping",
             "Registry.Grow", "Library.PurgeBooks", "Registry.Annotate", "LibraryAdmin.GetShelf", "Library.DeleteVault", "Vaults.SealVault"]
    subsets = [list(c) for r in range(1, len(names) + 1) for c in itertools.combinations(names, r)]
    singles = [s for s in subsets if len(s) == 1]
    others = [s for s in subsets if len(s) > 1]
    rng.shuffle(others)
    # the shared RPC name GetShelf kept for one of Library / LibraryAdmin only, in both directions
    twins = [["LibraryAdmin.GetShelf", "Registry.Ping"], ["Library.GetShelf", "Registry.Ping"], ["LibraryAdmin.GetShelf", "Library.GetBook"]]
    if tier == "quick":
        chosen = singles + others[:34] + twins[:1]
        internal = others[34:40] + singles[:2] + twins
    else:
        small = [s for s in others if len(s) == 2 or len(s) >= len(names) - 1]
        rest = [s for s in others if s not in small][:420]
        chosen = singles + small + rest
        internal = singles + small + rest[:300] + twins
    cases = [{"id": f"sel-{seed}-{i}", "seed": seed * 100003 + i, "subset": s, "internal": False} for i, s in enumerate(chosen)]
    cases += [{"id": f"sel-int-{seed}-{i}", "seed": seed * 100003 + 5000 + i, "subset": s, "internal": True} for i, s in enumerate(internal)]
    # compute-style extended operations: initiating RPCs need the polling service's Get
    xnames = ["Addresses.Insert", "Addresses.Delete", "Addresses.Get", "Addresses.List", "RegionOperations.Get", "RegionOperations.Wait"]
    xsubs = [list(c) for r in range(1, len(xnames) + 1) for c in itertools.combinations(xnames, r)]
    rng.shuffle(xsubs)
    for i, sub in enumerate(xsubs[:10] if tier == "quick" else xsubs):
        for internal in (False, True):
            cases.append({"id": f"sel-xop-{seed}-{i}-{int(internal)}", "seed": seed * 100003 + 8000 + i, "subset": sub, "internal": internal, "extop": True})
    # RPCs that share all their types: dropping one prunes no message or enum of its file
    snames = ["Shapes.GetShape", "Shapes.FetchShape", "Shapes.ReviseShape", "Shapes.DropShape", "Painter.Paint", "Painter.Repaint"]
    ssubs = [list(c) for r in range(1, len(snames)) for c in itertools.combinations(snames, r)]
    rng.shuffle(ssubs)
    fixed = [["Shapes.GetShape", "Painter.Paint"], ["Shapes.GetShape", "Shapes.ReviseShape"], ["Shapes.FetchShape", "Painter.Repaint", "Painter.Paint"]]
    for i, sub in enumerate(fixed + (ssubs[:5] if tier == "quick" else ssubs)):
        for internal in ((False, True) if i % 2 == 0 or tier != "quick" else (False,)):
            cases.append({"id": f"sel-shared-{seed}-{i}-{int(internal)}", "seed": seed * 100003 + 8500 + i, "subset": sub, "internal": internal, "api": "shared"})
    for i, b in enumerate(["unknown_method", "other_version", "unknown_service", "other_package"]):
        cases.append({"id": f"sel-bad-{seed}-{i}", "seed": seed * 100003 + 9000 + i, "subset": ["Library.GetShelf"], "internal": False, "bad": b})
    return cases


def build_api(case):
    rng = random.Random(case["seed"])
    if case.get("api") == "shared":
        return apigen.shared_types_api(rng, "s%d" % (case["seed"] % 100000))
    return apigen.selective_api(rng, "s%d" % (case["seed"] % 100000))


def closures(model, req, kept, pkg):
    """need / may sets of message and enum full names of the target package."""
    msgs, enums = {}, {}

    def walk(m, fq):
        msgs[fq] = m
        for e in m.enum_type:
            enums[fq + "." + e.name] = e
        for n in m.nested_type:
            if not n.options.map_entry:
                walk(n, fq + "." + n.name)

    resources = {}
    for p in req.proto_file:
        if p.name in req.file_to_generate:
            for m in p.message_type:
                walk(m, p.package + "." + m.name)
            for e in p.enum_type:
                enums[p.package + "." + e.name] = e
    for fq, m in msgs.items():
        r = m.options.Extensions[resource_pb2.resource]
        if r.type:
            resources[r.type] = fq

    def close(seed_set, with_nested):
        out, todo = set(), list(seed_set)
        while todo:
            n = todo.pop()
            if n in out or (n not in msgs and n not in enums):
                continue
            out.add(n)
            if n in enums:
                continue
            d = model.desc(n)
            for f in d.fields:
                t = None
                if f.type == FD.TYPE_MESSAGE:
                    t = f.message_type
                    if t.GetOptions().map_entry:
                        v = t.fields_by_name["value"]
                        t = v.message_type if v.type == FD.TYPE_MESSAGE else (v.enum_type if v.type == FD.TYPE_ENUM else None)
                elif f.type == FD.TYPE_ENUM:
                    t = f.enum_type
                if t is not None:
                    todo.append(t.full_name)
                rr = f.GetOptions().Extensions[resource_pb2.resource_reference]
                for rt in (rr.type, rr.child_type):
                    if rt and rt in resources:
                        todo.append(resources[rt])
            if with_nested:
                for k in list(msgs) + list(enums):
                    if k.startswith(n + ".") and "." not in k[len(n) + 1:]:
                        todo.append(k)
        return out

    seeds = set()
    for fq, p, s, m in kept:
        seeds.add(m.input_type.lstrip("."))
        if m.output_type.startswith("." + pkg + "."):
            seeds.add(m.output_type.lstrip("."))
        info = refs.lro_info(m)
        if info:
            for t in info:
                seeds.add(t if t.startswith(pkg + ".") else pkg + "." + t)
    need = close(seeds, with_nested=True)
    field_only = close(seeds, with_nested=False)
    # a type referenced by a field whose enclosing message is not itself reachable through fields
    orphan = any(pkg + "." + ".".join(n[len(pkg) + 1:].split(".")[:i]) not in field_only
                 for n in field_only for i in range(1, len(n[len(pkg) + 1:].split("."))))
    closures.orphan_nested = orphan
    # simple names of enclosing messages that a kept nested type needs but that no field reaches
    closures.orphan_parents = sorted({n[len(pkg) + 1:].split(".")[0] for n in field_only
                                      if "." in n[len(pkg) + 1:] and pkg + "." + n[len(pkg) + 1:].split(".")[0] not in field_only})
    may_seeds = set(need)
    for n in need:
        parts = n[len(pkg) + 1:].split(".")
        for i in range(1, len(parts)):
            may_seeds.add(pkg + "." + ".".join(parts[:i]))
    may = close(may_seeds, with_nested=True)
    return need, may, msgs, enums


def run_extop(case):
    """Selective generation over an API with extended operations: names, classes, and the polling flow of kept initiators."""
    scratch = pipeline.case_scratch("c16")
    rng = random.Random(case["seed"])
    api = apigen.extop_api(rng, "x%d" % (case["seed"] % 100000))
    pkg = api.info["pkg"]
    listed = [f"{pkg}.{n}" for n in case["subset"]]
    api.aux["service-yaml"] = ("svc.yaml", apigen.service_yaml(api, publishing=apigen.selective_publishing(pkg, listed, internal=case["internal"])))
    req, g, lib = pipeline.build_and_generate(api, scratch)
    mech = {"internal": case["internal"], "extended_operations": True}
    if not g.ok:
        return pipeline.gen_failed_result(g, api, mech)
    services = {"Addresses": ["Insert", "Delete", "Get", "List"], "RegionOperations": ["Get", "Wait"]}
    extended = {"Addresses.Insert", "Addresses.Delete"}
    kept = set(case["subset"])
    needs_polling = bool(kept & extended)
    script = {"root_pkg": apigen.lib_root(api.info, api.options), "extop": True, "pkg": pkg,
              "services": {sn: [rdm.py_method(m) for m in ms] for sn, ms in services.items()},
              "flows": [n for n in sorted(kept & extended)]}
    ev, rc, err = pipeline.run_runner("checks.c16", script, lib, timeout=200)
    if ev is None or "runner_crash" in ev or "library_import_error" in ev:
        return pipeline.runner_failed_result(ev, rc, err, api, mech)
    viol, counters = [], {"extended_operation_cases": 1}

    def bad(clause, detail, **extra):
        viol.append({"clause": clause, "detail": detail, "mech": {**mech, **extra}})

    for sn, ms in services.items():
        seen = ev["clients"].get(sn, {})
        exp_names = set()
        keptm = [m for m in ms if f"{sn}.{m}" in kept]
        for m in ms:
            py, ext = rdm.py_method(m), f"{sn}.{m}" in extended
            if f"{sn}.{m}" in kept:
                exp_names |= {py} | ({py + "_unary"} if ext else set())
            elif case["internal"]:
                exp_names |= {"_" + py} | ({"_" + py + "_unary"} if ext else set())
            elif sn == api.info["polling"][0] and m == api.info["polling"][1] and needs_polling:
                # omit mode: "(plus an extended-operation polling method they need)" — present under its own name
                exp_names |= {py}
        if case["internal"]:
            cls = ("Base" if len(keptm) != len(ms) else "") + sn + "Client"
        else:
            cls = sn + "Client" if exp_names else None
        counters["ext_op_surface_checks"] = counters.get("ext_op_surface_checks", 0) + 1
        if cls is None:
            if seen:
                bad("emptied-service-kept", {"service": sn, "seen": sorted(seen)})
            continue
        if cls not in seen:
            bad("internal-client-name" if case["internal"] else "kept-service-missing", {"service": sn, "expected": cls, "seen": sorted(seen)})
            continue
        if set(seen[cls]) != exp_names:
            bad("internal-method-names" if case["internal"] else "method-set",
                {"service": sn, "expected": sorted(exp_names), "seen": sorted(seen[cls])})
    for fl in ev.get("flows", []):
        counters["ext_op_flows"] = counters.get("ext_op_flows", 0) + 1
        if fl.get("error"):
            bad("kept-rpc-raised", {"rpc": fl["rpc"], "why": fl["error"]}, flow="extended-operation")
        elif fl.get("paths") != [f"/{pkg}.{fl['rpc'].split('.')[0]}/{fl['rpc'].split('.')[1]}", f"/{pkg}.RegionOperations/Get"] or not fl.get("done"):
            bad("extended-operation-flow", {"rpc": fl["rpc"], "paths": fl.get("paths"), "done": fl.get("done")})
    return {"verdict": "violated" if viol else "held", "violations": pipeline.diverse(viol, 40),
            "evaluations": counters.get("ext_op_surface_checks", 0) + counters.get("ext_op_flows", 0),
            "nontrivial_sigs": [] if viol else [f"xop|{'+'.join(case['subset'])}|internal={case['internal']}"], "counters": counters,
            "sample": {"kept": case["subset"], "internal": case["internal"], "clients": ev["clients"]}}


def run_case(case):
    if case.get("extop"):
        return run_extop(case)
    scratch = pipeline.case_scratch("c16")
    api = build_api(case)
    req0 = api.request(scratch)
    pkg = api.info["pkg"]
    rpcs = all_rpcs(req0)
    byname = {f"{s.name}.{m.name}": (fq, p, s, m) for fq, p, s, m in rpcs}
    listed = [byname[n][0] for n in case["subset"]]
    bad_kind = case.get("bad")
    if bad_kind == "unknown_method":
        listed.append(f"{pkg}.Library.NoSuchMethod")
    elif bad_kind == "other_version":
        listed.append(f"{pkg[:-2]}v2.Library.GetShelf")
    elif bad_kind == "unknown_service":
        listed.append(f"{pkg}.Nowhere.GetShelf")
    elif bad_kind == "other_package":
        listed.append("google.longrunning.Operations.GetOperation")
    pub = apigen.selective_publishing(pkg, listed, internal=case["internal"])
    autopop = set()
    if api.info.get("autopop_candidates"):
        # AIP-4235 method settings next to selective generation: in keep-as-internal mode nothing is omitted, so the settings of unlisted
        # RPCs still apply to their _methods; in omit mode only listed RPCs are configured
        autopop = {n for n in api.info["autopop_candidates"] if case["internal"] or n in case["subset"]}
        pub["method_settings"] = [{"selector": f"{pkg}.{n}", "auto_populated_fields": ["request_id"]} for n in sorted(autopop)]
    api.aux["service-yaml"] = ("svc.yaml", apigen.service_yaml(api, publishing=pub))
    # a gRPC service config naming every RPC (own timeout each, retry on UNAVAILABLE): selection decides which methods are public,
    # never how they call - the default deadline and retry of a kept or internal method are those of the whole library
    deadline_of = {fq: 31.0 + 13.0 * i for i, (fq, _p, _s, _m) in enumerate(rpcs)}
    api.aux["retry-config"] = ("retry.json", json.dumps({"methodConfig": [
        {"name": [{"service": fq.rsplit(".", 1)[0], "method": fq.rsplit(".", 1)[1]}], "timeout": f"{int(t_)}s",
         "retryPolicy": {"maxAttempts": 5, "initialBackoff": "0.01s", "maxBackoff": "0.05s", "backoffMultiplier": 1.5,
                         "retryableStatusCodes": ["UNAVAILABLE"]}} for fq, t_ in deadline_of.items()]}))
    req, g, lib = pipeline.build_and_generate(api, scratch)
    counters = {}
    if bad_kind:
        counters["rejections_checked"] = 1
        viol = []
        if g.ok:
            viol.append({"clause": "invalid-selection-accepted", "detail": {"listed": listed}, "mech": {"bad": bad_kind}})
        elif "ClientLibrarySettingsError" not in (g.exc_type or ""):
            viol.append({"clause": "rejection-not-clientlibrarysettingserror", "detail": g.failure(), "mech": {"bad": bad_kind}})
        return {"verdict": "violated" if viol else "held", "violations": viol, "evaluations": 1, "counters": counters,
                "nontrivial_sigs": [] if viol else ["rejected|" + bad_kind], "sample": {"bad": bad_kind, "error": f"{g.exc_type}: {(g.exc_msg or '')[:120]}"}}
    mech = {"internal": case["internal"], "subset_size": len(case["subset"])}
    if case.get("api") == "shared":
        mech["api"] = "rpcs-sharing-all-their-types"
    if not g.ok:
        return pipeline.gen_failed_result(g, api, mech)
    model = rdm.Model(req)
    kept = [byname[n] for n in case["subset"]]
    need, may, msgs, enums = closures(model, req, kept, pkg)
    orphan = bool(getattr(closures, "orphan_nested", False)) and not case["internal"]
    if case["internal"]:
        need = set(msgs) | set(enums)
        may = set(need)
    rng = random.Random(case["seed"] ^ 0xC16)
    # type probes
    types = []
    for fq in sorted(set(msgs) | set(enums)):
        it = {"fq": fq, "path": fq[len(pkg) + 1:].split("."), "kind": "enum" if fq in enums else "message", "vals": [], "surface": []}
        if fq in msgs and fq in need:
            for _ in range(3):
                x = rdm.fill(rng, model.new(fq), max_depth=3, p_set=0.9)
                it["vals"].append(rdm.b64(x.SerializeToString()))
                y = rdm.fill(rng, model.new(fq), max_depth=2, p_set=0.9, avoid_types=rdm.CONTAINER_WKT)
                it["surface"].append({"py": rdm.to_py(y), "bytes": rdm.b64(y.SerializeToString())})
        types.append(it)
    # method probes
    services = {}
    for fq, p, s, m in rpcs:
        services.setdefault(s.name, []).append((fq, m))
    calls = []
    for fq, p, s, m in kept:
        x = model.new(m.input_type)
        rdm.fill(rng, x, max_depth=2)
        for fd in x.DESCRIPTOR.fields:
            if fd.name in ("name", "parent"):
                setattr(x, fd.name, {"GetShelf": "shelves/s1", "GetBook": "shelves/s1/books/b1", "ListBooks": "shelves/s1", "TagInner": "shelves/s1",
                                     "ImportBooks": "shelves/s1", "PurgeBooks": "shelves/s1", "DeleteVault": "vaults/v1", "SealVault": "vaults/v1"}.get(m.name, "x"))
        if "request_id" in x.DESCRIPTOR.fields_by_name:
            x.request_id = ""
        calls.append({"service": s.name, "rpc": m.name, "method": rdm.py_method(m.name), "req_type": m.input_type.lstrip("."),
                      "request": rdm.b64(x.SerializeToString()), "path": f"/{p.package}.{s.name}/{m.name}",
                      "deadline": deadline_of[fq], "fault": not (m.client_streaming or m.server_streaming)})
    if case["internal"]:
        # "nothing is omitted": the unlisted RPCs live on as _<method> and must still reach their RPC, on both client kinds
        keptfq = {k[0] for k in kept}
        for fq, p, s, m in rpcs:
            if fq in keptfq or m.client_streaming:
                continue
            x = model.new(m.input_type)
            rdm.fill(rng, x, max_depth=2)
            if "request_id" in x.DESCRIPTOR.fields_by_name:
                x.request_id = ""
            calls.append({"service": s.name, "rpc": m.name, "method": "_" + rdm.py_method(m.name), "req_type": m.input_type.lstrip("."),
                          "request": rdm.b64(x.SerializeToString()), "path": f"/{p.package}.{s.name}/{m.name}", "internal": True,
                          "deadline": deadline_of[fq], "fault": not (m.client_streaming or m.server_streaming)})
    script = {"root_pkg": apigen.lib_root(api.info, api.options), "types": types, "calls": calls,
              "services": {sn: [rdm.py_method(m.name) for _, m in ms] for sn, ms in services.items()}}
    ev, rc, err = pipeline.run_runner("checks.c16", script, lib, timeout=200)
    if ev is None or "runner_crash" in ev or "library_import_error" in ev:
        names_parent = False
        if ev and "library_import_error" in ev and orphan:
            e = ev["library_import_error"]
            mm = re.search(r"has no attribute '(\w+)'", e.get("msg") or "")
            names_parent = e.get("type") == "AttributeError" and bool(mm) and mm.group(1) in getattr(closures, "orphan_parents", [])
        return pipeline.runner_failed_result(ev, rc, err, api, {**mech, "nested_type_without_enclosing_message": orphan,
                                                                "import_error_names_pruned_enclosing_message": names_parent})
    viol = []

    def bump(k, n=1):
        counters[k] = counters.get(k, 0) + n

    def bad(clause, detail, **extra):
        viol.append({"clause": clause, "detail": detail, "mech": {**mech, **extra}})

    bump("subsets")
    if case["internal"]:
        bump("internal_cases")
    # types
    for it, r in zip(types, ev["types"]):
        fq = it["fq"]
        nested_only = "." in fq[len(pkg) + 1:]
        if fq in need:
            bump("types_required_usable")
            if not r["present"]:
                bad("needed-type-missing", {"type": fq, "kept": case["subset"]}, nested=nested_only, kind=it["kind"])
            elif r.get("error"):
                bad("needed-type-unusable", {"type": fq, "kept": case["subset"], "why": r["error"]}, nested=nested_only, kind=it["kind"])
            elif it["kind"] == "message":
                for sent, back in zip(it["vals"], r["roundtrip"]):
                    if isinstance(back, dict) or model.parse(fq, rdm.unb64(sent)) != model.parse(fq, rdm.unb64(back)):
                        bad("needed-type-unusable", {"type": fq, "kept": case["subset"], "why": back if isinstance(back, dict) else "round trip differs"},
                            nested=nested_only, kind=it["kind"])
                        break
                for s_, back in zip(it["surface"], r["surface"]):
                    if isinstance(back, dict) or model.parse(fq, rdm.unb64(s_["bytes"])) != model.parse(fq, rdm.unb64(back)):
                        bad("needed-type-unusable", {"type": fq, "kept": case["subset"], "why": back if isinstance(back, dict) else "surface construction differs"},
                            nested=nested_only, kind=it["kind"], via="python-surface")
                        break
        elif fq not in may:
            if r["present"]:
                bad("unneeded-type-kept", {"type": fq, "kept": case["subset"]}, kind=it["kind"])
            else:
                bump("types_absent_confirmed")
    # methods and client classes
    for sn, ms in services.items():
        keptm = {rdm.py_method(m.name) for fq, m in ms if fq in {k[0] for k in kept}}
        allm = {rdm.py_method(m.name) for fq, m in ms}
        seen = ev["clients"].get(sn, {})
        if case["internal"]:
            internal_any = keptm != allm
            want_cls = ("Base" if internal_any else "") + sn + "Client"
            if not seen.get(want_cls):
                bad("internal-client-name", {"service": sn, "expected": want_cls, "seen": sorted(seen)})
                continue
            have = set(seen[want_cls])
            want = set(keptm) | {"_" + x for x in allm - keptm}
            if have & (set(allm) | {"_" + x for x in allm}) != want:
                bad("internal-method-names", {"service": sn, "expected": sorted(want), "seen": sorted(have & (set(allm) | {"_" + x for x in allm}))})
        else:
            cls = sn + "Client"
            if not keptm:
                bump("emptied_service_cases")
                if seen.get(cls) is not None:
                    bad("emptied-service-kept", {"service": sn})
                continue
            if seen.get(cls) is None:
                bad("kept-service-missing", {"service": sn})
                continue
            have = set(seen[cls]) & allm
            if have != keptm:
                bad("method-set", {"service": sn, "expected": sorted(keptm), "seen": sorted(have)})
    # wire
    for c, r in zip(calls, ev["calls"]):
        bump("internal_rpc_calls" if c.get("internal") else "kept_rpc_calls")
        # the asyncio client reaches the same RPC under the same method name
        if r.get("aio_error"):
            bad("internal-rpc-raised" if c.get("internal") else "kept-rpc-raised", {"rpc": c["rpc"], "client": "asyncio", "why": r["aio_error"]}, client="asyncio")
        elif (r.get("aio_event") or {}).get("method") != c["path"]:
            bad("kept-rpc-path", {"rpc": c["rpc"], "client": "asyncio", "seen": (r.get("aio_event") or {}).get("method")}, client="asyncio")
        if r.get("error"):
            bad("internal-rpc-raised" if c.get("internal") else "kept-rpc-raised", {"rpc": c["rpc"], "why": r["error"]})
            continue
        e = r["event"]
        if e["method"] != c["path"]:
            bad("kept-rpc-path", {"rpc": c["rpc"], "seen": e["method"]})
        # default deadline and retry: those of the service config entry, for kept and internal methods alike
        if c.get("deadline"):
            if c.get("fault"):
                bump("default_retry_probes")
                if r.get("attempts") != 2:
                    bad("internal-rpc-default-retry" if c.get("internal") else "kept-rpc-default-retry",
                        {"rpc": c["rpc"], "attempts": r.get("attempts"), "expected": 2})
            for ev_, t0_, who in ((e, r.get("t0"), "sync"), (r.get("aio_event"), r.get("aio_t0"), "asyncio")):
                if not ev_:
                    continue
                bump("default_deadlines_compared")
                tr_, T_ = ev_.get("time_remaining"), c["deadline"]
                stall_ = max(0.0, ev_["t"] - t0_) if t0_ is not None else 0.0
                if tr_ is None or not (T_ - 3.0 - stall_ <= tr_ <= T_ + 1.5):
                    bad("internal-rpc-default-deadline" if c.get("internal") else "kept-rpc-default-deadline",
                        {"rpc": c["rpc"], "client": who, "time_remaining": tr_, "entry_timeout": T_}, client=who)
        got_m, sent_m = model.parse(c["req_type"], rdm.unb64(e["requests"][0])), model.parse(c["req_type"], rdm.unb64(c["request"]))
        if f"{c['service']}.{c['rpc']}" in autopop:
            # configured for auto-population (the probe leaves request_id unset): a fresh UUID4 arrives, on kept and on internal methods alike
            for ev_, who in ((e, "sync"), (r.get("aio_event"), "asyncio")):
                if not ev_:
                    continue
                gm_ = model.parse(c["req_type"], rdm.unb64(ev_["requests"][0]))
                bump("auto_populated_calls")
                if not re.fullmatch(r"[0-9a-f]{8}-[0-9a-f]{4}-4[0-9a-f]{3}-[89ab][0-9a-f]{3}-[0-9a-f]{12}", gm_.request_id):
                    bad("internal-rpc-not-auto-populated" if c.get("internal") else "kept-rpc-not-auto-populated",
                        {"rpc": c["rpc"], "client": who, "request_id_received": gm_.request_id}, client=who)
            got_m.request_id = ""
            sent_m.request_id = ""
        if got_m != sent_m:
            bad("kept-rpc-payload", {"rpc": c["rpc"]})
    return {"verdict": "violated" if viol else "held", "violations": pipeline.diverse(viol, 40),
            "evaluations": counters.get("types_required_usable", 0) + counters.get("types_absent_confirmed", 0) + counters.get("kept_rpc_calls", 0),
            "nontrivial_sigs": [] if viol else [f"{'+'.join(case['subset'])}|internal={case['internal']}"], "counters": counters,
            "sample": {"kept": case["subset"], "internal": case["internal"], "need": len(need), "may_extra": len(may - need),
                       "absent": sorted(it["fq"] for it, r in zip(types, ev["types"]) if not r["present"])[:8]}}


# ---------------------------------------------------------------------------

def in_runner(script):
    import importlib
    from vlib import rt
    from vlib.rdm import decode_py
    lib = rt.Lib(script["root_pkg"])
    root = lib.root
    if script.get("extop"):
        return extop_runner(script, lib, root)
    out = {"types": [], "clients": {}, "calls": []}
    for it in script["types"]:
        r = {"present": False}
        cur = root
        try:
            for p in it["path"]:
                cur = getattr(cur, p)
            r["present"] = True
        except AttributeError:
            pass
        if r["present"] and it["kind"] == "message" and (it["vals"] or it["surface"]):
            try:
                cls = cur
                cls()
                r["roundtrip"], r["surface"] = [], []
                for v in it["vals"]:
                    try:
                        r["roundtrip"].append(rt.b64(cls.serialize(cls.deserialize(rt.unb64(v)))))
                    except BaseException as e:  # noqa
                        r["roundtrip"].append({"error": f"{type(e).__name__}: {e}"[:300]})
                for s in it["surface"]:
                    try:
                        r["surface"].append(rt.b64(cls.serialize(cls(**decode_py(s["py"])))))
                    except BaseException as e:  # noqa
                        r["surface"].append({"error": f"{type(e).__name__}: {e}"[:300]})
            except BaseException as e:  # noqa
                r["error"] = f"{type(e).__name__}: {e}"[:300]
        out["types"].append(r)
    for sn, methods in script["services"].items():
        info = {}
        for cname in (sn + "Client", "Base" + sn + "Client"):
            cls = getattr(root, cname, None)
            if isinstance(cls, type):
                info[cname] = [m for m in set(methods) | {"_" + x for x in methods} if hasattr(cls, m)]
        out["clients"][sn] = info
    srv = rt.GrpcServer()
    clients = {}
    for c in script["calls"]:
        o = {}
        try:
            sn = c["service"]
            if sn not in clients:
                cname = sn if hasattr(root, sn + "Client") else "Base" + sn
                C = getattr(root, cname + "Client")
                import grpc
                clients[sn] = C(transport=C.get_transport_class("grpc")(channel=grpc.insecure_channel(srv.target)))
            mark = srv.mark()
            import time as _time
            o["t0"] = _time.monotonic()
            if c.get("fault"):
                # the first attempt fails with UNAVAILABLE: the default retry of the method decides what happens next
                srv.script(c["path"], [{"code": "UNAVAILABLE"}])
            try:
                getattr(clients[sn], c["method"])(request=lib.mk(c["req_type"], rt.unb64(c["request"])))
            finally:
                srv.script(c["path"], [])
                evs_ = srv.since(mark)
                o["attempts"] = len(evs_)
            o["event"] = evs_[-1] if c.get("fault") else evs_[0]
        except BaseException as e:  # noqa
            o["error"] = rt.exc_info(e)
        out["calls"].append(o)

    async def amain():
        import grpc
        ac = {}
        for c, o in zip(script["calls"], out["calls"]):
            try:
                sn = c["service"]
                if sn not in ac:
                    cname = sn if hasattr(root, sn + "AsyncClient") else "Base" + sn
                    C = getattr(root, cname + "AsyncClient")
                    ac[sn] = C(transport=C.get_transport_class("grpc_asyncio")(channel=grpc.aio.insecure_channel(srv.target)))
                mark = srv.mark()
                import time as _time
                o["aio_t0"] = _time.monotonic()
                ret = getattr(ac[sn], c["method"])(request=lib.mk(c["req_type"], rt.unb64(c["request"])))
                if hasattr(ret, "__await__"):
                    ret = await ret
                elif hasattr(ret, "__aiter__"):
                    async for _ in ret:
                        pass
                if hasattr(ret, "__aiter__") and not hasattr(ret, "pages"):
                    async for _ in ret:
                        pass
                evs = srv.since(mark)
                o["aio_event"] = evs[0] if evs else None
            except BaseException as e:  # noqa
                o["aio_error"] = rt.exc_info(e)

    import asyncio
    asyncio.run(amain())
    srv.stop()
    return out


def extop_runner(script, lib, root):
    import grpc
    from vlib import rt
    out = {"clients": {}, "flows": []}
    for sn, methods in script["services"].items():
        info = {}
        for cname in (sn + "Client", "Base" + sn + "Client"):
            cls = getattr(root, cname, None)
            if isinstance(cls, type):
                cands = set()
                for m in methods:
                    cands |= {m, "_" + m, m + "_unary", "_" + m + "_unary"}
                info[cname] = sorted(c for c in cands if callable(getattr(cls, c, None)))
        out["clients"][sn] = info
    srv = rt.GrpcServer()
    pkg = script["pkg"]
    for name in script["flows"]:
        sn, m = name.split(".")
        o = {"rpc": name}
        try:
            Op = lib.msg_cls(pkg + ".Operation")
            cname = sn if hasattr(root, sn + "Client") else "Base" + sn
            C = getattr(root, cname + "Client")
            client = C(transport=C.get_transport_class("grpc")(channel=grpc.insecure_channel(srv.target)))
            # the transport would build the polling client with default credentials and endpoint: hand it one on our channel
            pname = "RegionOperations" if hasattr(root, "RegionOperationsClient") else "BaseRegionOperations"
            PC = getattr(root, pname + "Client")
            client._transport._extended_operations_services["region_operations"] = PC(
                transport=PC.get_transport_class("grpc")(channel=grpc.insecure_channel(srv.target)))
            running = Op(name="op-1", status=Op.Status.RUNNING)
            done = Op(name="op-1", status=Op.Status.DONE)
            srv.script(f"/{pkg}.{sn}/{m}", [{"payloads": [rt.b64(Op.serialize(running))]}])
            srv.script(f"/{pkg}.RegionOperations/Get", [{"payloads": [rt.b64(Op.serialize(done))]}], sticky={"payloads": [rt.b64(Op.serialize(done))]})
            mark = srv.mark()
            Req = lib.msg_cls(pkg + "." + {"Insert": "InsertAddressRequest", "Delete": "DeleteAddressRequest"}[m])
            fut = getattr(client, m.lower())(request=Req(project="p1", region="r1"))
            fut.result(timeout=30)
            o["done"] = bool(fut.done())
            o["paths"] = [e["method"] for e in srv.since(mark)]
        except BaseException as e:  # noqa
            o["error"] = rt.exc_info(e)
        out["flows"].append(o)
    srv.stop()
    return out
