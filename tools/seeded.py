#!/usr/bin/env python3
"""Evaluate a seeded change: tools/seeded.py <dir with patch.diff, demo.py> <PID> [--checks C01,C11] [--no-baseline]

Applies the patch to /repo, confirms (a) the pinned suite still passes, (b) the demonstration passes on the clean tree
and fails on the changed one, (c) which of our quick checks report a violation; always restores /repo."""
import json, os, subprocess, sys, time

def sh(cmd, **kw):
    return subprocess.run(cmd, shell=True, capture_output=True, text=True, **kw)

def main():
    d, pid = sys.argv[1], sys.argv[2]
    checks = [pid]
    baseline = True
    wt = None
    for a in sys.argv[3:]:
        if a.startswith("--wt="):
            wt = a.split("=", 1)[1]
        if a.startswith("--checks"):
            checks = a.split("=", 1)[1].split(",")
        if a == "--no-baseline":
            baseline = False
    patch = os.path.join(d, "patch.diff")
    demo = os.path.join(d, "demo.py")
    if wt:
        return main_wt(d, pid, checks, baseline, wt, patch, demo)
    assert sh("git -C /repo status --porcelain").stdout.strip() == "", "/repo not clean"
    env = dict(os.environ, PYTHONPATH="/repo", PYPANDOC_PANDOC="/verif/tools/pandoc")
    res = {"dir": d, "property": pid}
    if os.path.exists(demo):
        r = subprocess.run(["/venv/bin/python", demo], env=env, capture_output=True, text=True, timeout=900)
        res["demo_clean_rc"] = r.returncode
    r = sh(f"git -C /repo apply {patch}")
    if r.returncode:
        print("patch does not apply:", r.stderr); sys.exit(2)
    try:
        if baseline:
            r = sh("/usr/bin/python3 /verif/tools/baseline.py /repo")
            res["baseline"] = r.stdout.strip()[-200:]
            res["baseline_ok"] = r.returncode == 0
        if os.path.exists(demo):
            r = subprocess.run(["/venv/bin/python", demo], env=env, capture_output=True, text=True, timeout=900)
            res["demo_changed_rc"] = r.returncode
            res["demo_changed_tail"] = (r.stdout + r.stderr)[-600:]
        res["checks"] = {}
        for c in checks:
            t = time.time()
            r = sh(f"cd /verif && ./check {c} --tier quick", timeout=3600)
            lines = [l for l in r.stdout.splitlines() if l.startswith("VIOLATION")]
            res["checks"][c] = {"rc": r.returncode, "violations": len(lines), "first": lines[:2], "wall": round(time.time() - t, 1)}
    finally:
        sh("git -C /repo checkout -- . && git -C /repo clean -fdq gapic")
    print(json.dumps(res, indent=1))

def main_wt(d, pid, checks, baseline, wt, patch, demo):
    """Evaluate against a worktree that has the change applied, without touching /repo (VERIF_REPO)."""
    res = {"dir": d, "property": pid, "worktree": wt}
    diff = sh(f"git -C {wt} diff").stdout
    res["worktree_matches_patch"] = diff.strip() == open(patch).read().strip()
    env_clean = dict(os.environ, PYTHONPATH="/repo", PYPANDOC_PANDOC="/verif/tools/pandoc")
    env_wt = dict(os.environ, PYTHONPATH=wt, PYPANDOC_PANDOC="/verif/tools/pandoc")
    if os.path.exists(demo):
        r = subprocess.run(["/venv/bin/python", demo], env=env_clean, capture_output=True, text=True, timeout=900)
        res["demo_clean_rc"] = r.returncode
        r = subprocess.run(["/venv/bin/python", demo], env=env_wt, capture_output=True, text=True, timeout=900)
        res["demo_changed_rc"] = r.returncode
        res["demo_changed_tail"] = (r.stdout + r.stderr)[-500:]
    if baseline:
        r = sh(f"/usr/bin/python3 /verif/tools/baseline.py {wt}")
        res["baseline"] = r.stdout.strip()[-200:]
        res["baseline_ok"] = r.returncode == 0
    res["checks"] = {}
    for c in checks:
        t = time.time()
        r = subprocess.run(f"cd /verif && ./check {c} --tier quick", shell=True, capture_output=True, text=True, timeout=3600,
                           env=dict(os.environ, VERIF_REPO=wt, VERIF_NO_EVIDENCE="1"))
        lines = [l for l in r.stdout.splitlines() if l.startswith("VIOLATION")]
        res["checks"][c] = {"rc": r.returncode, "violations": len(lines), "first": lines[:2], "wall": round(time.time() - t, 1)}
    print(json.dumps(res, indent=1))


if __name__ == "__main__":
    main()
