#!/usr/bin/env python3
"""tools/matrix.py [--own] [names...]  -- run every quick check (or, with --own, only the check of the change's own property)
against every kept seeded change (each applied in its own scratch worktree of /repo HEAD, selected with VERIF_REPO; /repo and the
evidence files are not touched) and write seeded/MATRIX.json (seeded/MATRIX_own.json with --own)."""
import json, os, subprocess, sys, time, glob

VERIF = os.path.dirname(os.path.dirname(os.path.abspath(__file__)))
ids = [c["property_id"] for c in json.load(open(os.path.join(VERIF, "MANIFEST.json")))["checks"]]
OWN = "--own" in sys.argv
SEED = next((a.split("=", 1)[1] for a in sys.argv if a.startswith("--seed=")), None)      # another VERIF_SEED: is a catch luck of seed 0?
sys.argv = [a for a in sys.argv if a != "--own" and not a.startswith("--seed=")]
names = sys.argv[1:] or sorted(os.path.basename(os.path.dirname(p)) for p in glob.glob(os.path.join(VERIF, "seeded/*/patch.diff")))
out_path = os.path.join(VERIF, "seeded", ("MATRIX_own.json" if OWN else "MATRIX.json") if SEED is None else f"MATRIX_own_seed{SEED}.json")
matrix = json.load(open(out_path)) if os.path.exists(out_path) else {}
for name in names:
    wt = f"/tmp/mx{SEED or ''}/{name}"
    subprocess.run(["git", "-C", "/repo", "worktree", "remove", "--force", wt], capture_output=True)
    os.makedirs(os.path.dirname(wt), exist_ok=True)
    subprocess.run(["git", "-C", "/repo", "worktree", "add", "-q", "--detach", wt, "HEAD"], check=True)
    try:
        r = subprocess.run(["git", "-C", wt, "apply", os.path.join(VERIF, "seeded", name, "patch.diff")], capture_output=True, text=True)
        if r.returncode:
            matrix[name] = {"error": "patch does not apply: " + r.stderr[-200:]}
            continue
        row = {}
        for cid in ([name[:3]] if OWN else ids):
            t = time.time()
            p = subprocess.run(f"cd {VERIF} && ./check {cid} --tier quick", shell=True, capture_output=True, text=True, timeout=3600,
                               env=dict(os.environ, VERIF_REPO=wt, VERIF_NO_EVIDENCE="1", **({"VERIF_SEED": SEED} if SEED else {})))
            viol = [l for l in p.stdout.splitlines() if l.startswith("VIOLATION")]
            row[cid] = {"rc": p.returncode, "violations": len(viol), "clause": (viol[0].split("clause=")[1].split(" ")[0] if viol and "clause=" in viol[0] else None),
                        "wall": round(time.time() - t, 1)}
            print(name, cid, row[cid], flush=True)
        matrix[name] = row
    finally:
        subprocess.run(["git", "-C", "/repo", "worktree", "remove", "--force", wt], capture_output=True)
        json.dump(matrix, open(out_path, "w"), indent=1, sort_keys=True)
