"""C15 — gapic_metadata.json and the fix-up script describe the generated surface exactly."""
import ast
import json
import keyword
import random

from vlib import apigen, pipeline, rdm, refs

ID = "C15"
LEVEL = "exploration"
RULE = ("cases = seeded well-formed APIs (several services, keyword-named RPCs, reserved-word fields, request messages whose field numbers do "
        "not follow declaration order) x transports {grpc, rest, grpc+rest} x {plain, selective generation with omitted methods kept as "
        "internal — an RPC name shared by two services is always public in one and internal in the other}; gapic_metadata.json is compared with the input (services, RPCs, client kinds implied by the transports, packages) and "
        "with the imported package (each libraryClient is a class, each listed method an attribute of it); METHOD_TO_PARAMS of the emitted "
        "fix-up script is read with ast.literal_eval and compared with 'required fields first, then declaration order'; distinct = distinct "
        "(shape-tag set, transport, internal mode) that held")
ASSUMPTIONS = ["reserved-word fields may appear in the table with or without the trailing underscore",
               "when two services have an RPC of the same name the table may describe either"]
CASE_TIMEOUT = 300
PARALLEL = 14
TRANSPORTS = ["grpc", "rest", "grpc+rest"]


def floors(tier):
    k = 1 if tier == "quick" else 8
    return {"libraries": 30 * k, "metadata_rpc_entries": 700 * k, "methods_resolved": 700 * k, "fixup_rows": 300 * k, "internal_mode": 8 * k,
            "out_of_order_rows": 20 * k, "keyword_rpcs": 20 * k,
            "shared_rpc_name_public_in_one_service_internal_in_other": 2 * k, "services_without_rpcs": 2 * k, "apis_with_required_plus_second_behavior": 4 * k, "sub_package_cases": 3 if tier == "quick" else 12}


def plan(seed, tier):
    n = 36 if tier == "quick" else 300
    cases = [{"id": f"meta-{seed}-{i}", "seed": seed * 100003 + i, "transport": TRANSPORTS[i % 3], "internal": i % 4 == 3} for i in range(n)]
    # services in sibling proto sub-packages
    cases += [{"id": f"meta-sub-{seed}-{i}", "seed": seed * 100003 + 6000 + i, "transport": TRANSPORTS[i % 3], "internal": False, "subpkg": True}
              for i in range(3 if tier == "quick" else 15)]
    # the API declares IAM RPCs itself AND the service YAML lists the IAM mixin (the API's own RPCs are the ones described)
    cases += [{"id": f"meta-owniam-{seed}-{i}", "seed": seed * 100003 + 6500 + i, "transport": TRANSPORTS[i % 3], "internal": False, "own_iam": True}
              for i in range(3 if tier == "quick" else 9)]
    return cases


def build_api(case):
    rng = random.Random(case["seed"])
    if case.get("own_iam"):
        own = [["SetIamPolicy"], ["SetIamPolicy", "GetIamPolicy", "TestIamPermissions"], ["GetIamPolicy", "SetIamPolicy"]][case["seed"] % 3]
        api = apigen.mixin_api(rng, "k%d" % (case["seed"] % 100000), rng.choice([["iam"], ["iam", "locations"]]), "all", own_iam=own,
                               transport=case["transport"], annex=None)
        api.options = [f"transport={case['transport']}", "metadata", "autogen-snippets=false"]
        return api, rng
    if case.get("subpkg"):
        api = apigen.prefix_packages_api(rng, "k%d" % (case["seed"] % 100000), layout="prefix3", services=True)
        api.options = [f"transport={case['transport']}", "metadata", "autogen-snippets=false"]
        return api, rng
    idle = {"idle_service": True} if case["seed"] % 5 == 1 and not case["internal"] else {}
    idle = {**idle, "multi_behavior": case["seed"] % 3 == 0}
    api = apigen.wellformed(rng, "k%d" % (case["seed"] % 100000), extra_feat=idle)
    if case["internal"] and (case["seed"] // 4) % 2 == 0:
        # every other internal-mode case has an RPC name shared by two services
        for _ in range(12):
            if "same-rpc-name-two-services" in api.tags:
                break
            api = apigen.wellformed(rng, "k%d" % (case["seed"] % 100000), extra_feat=idle)
    api.options = [f"transport={case['transport']}", "metadata", "autogen-snippets=false"]
    return api, rng


def run_case(case):
    scratch = pipeline.case_scratch("c15")
    api, rng = build_api(case)
    req0 = api.request(scratch)
    kept = None
    split_twins = False
    if case["internal"]:
        allm = [f"{p.package}.{s.name}.{m.name}" for p, s, m in refs.target_methods(req0)]
        kept = set(rng.sample(allm, max(1, len(allm) // 3)))
        # an RPC name that two services share: public in one, internal in the other
        by_rpc = {}
        for fq in allm:
            by_rpc.setdefault(fq.rsplit(".", 1)[1], []).append(fq)
        for twins in by_rpc.values():
            if len(twins) > 1:
                split_twins = True
                pub = rng.randrange(len(twins))
                for i, fq in enumerate(twins):
                    (kept.add if i == pub else kept.discard)(fq)
        if not kept:
            kept.add(allm[0])
        api.aux["service-yaml"] = ("svc.yaml", apigen.service_yaml(api, publishing=apigen.selective_publishing(api.info["pkg"], sorted(kept), internal=True)))
    req, g, lib = pipeline.build_and_generate(api, scratch)
    if not g.ok:
        return pipeline.gen_failed_result(g, api, {"internal": case["internal"]})
    model = rdm.Model(req)
    files = {f.name: f.content for f in g.response.file}
    viol, counters = [], {"libraries": 1}
    counters["apis_with_required_plus_second_behavior"] = int("required-with-second-behavior-after-optional" in api.tags)
    counters["sub_package_cases"] = int(bool(case.get("subpkg")))
    counters["services_without_rpcs"] = sum(1 for p_ in req.proto_file if p_.name in req.file_to_generate for s_ in p_.service if not s_.method)
    mech = {"transport": case["transport"], "internal": case["internal"]}

    def bump(k, n=1):
        counters[k] = counters.get(k, 0) + n

    def bad(clause, detail, **extra):
        viol.append({"clause": clause, "detail": detail, "mech": {**mech, **extra}})

    if case["internal"]:
        bump("internal_mode")
        if split_twins:
            bump("shared_rpc_name_public_in_one_service_internal_in_other")
    root = apigen.lib_root(api.info, api.options)
    mpath = root.replace(".", "/") + "/gapic_metadata.json"
    if mpath not in files:
        bad("metadata-file-missing", mpath)
        return {"verdict": "violated", "violations": viol, "evaluations": 1, "counters": counters}
    try:
        meta = json.loads(files[mpath])
    except ValueError as e:
        bad("metadata-not-json", str(e))
        return {"verdict": "violated", "violations": viol, "evaluations": 1, "counters": counters}
    if meta.get("protoPackage") != api.info["pkg"]:
        bad("proto-package", f"{meta.get('protoPackage')} != {api.info['pkg']}")
    if meta.get("libraryPackage") != root:
        bad("library-package", f"{meta.get('libraryPackage')} != {root}")
    services = {}
    for p in req.proto_file:
        if p.name in req.file_to_generate:
            for s in p.service:
                services[s.name] = list(s.method)
    if set(meta.get("services", {})) != set(services):
        bad("service-set", f"{sorted(meta.get('services', {}))} != {sorted(services)}")
    kinds = []
    if "grpc" in case["transport"]:
        kinds += ["grpc", "grpc-async"]
    if "rest" in case["transport"]:
        kinds += ["rest"]
    probes = []
    for sname, methods in services.items():
        clients = (meta.get("services", {}).get(sname) or {}).get("clients", {})
        if set(clients) != set(kinds):
            bad("client-kinds", {"service": sname, "seen": sorted(clients), "expected": kinds})
        for kind, c in clients.items():
            rpcs = c.get("rpcs", {})
            if set(rpcs) != {m.name for m in methods}:
                bad("rpc-set", {"service": sname, "kind": kind, "missing": sorted({m.name for m in methods} - set(rpcs)),
                                "extra": sorted(set(rpcs) - {m.name for m in methods})})
            for rname, rv in rpcs.items():
                bump("metadata_rpc_entries")
                ms = rv.get("methods", [])
                if len(ms) != 1:
                    bad("rpc-listed-not-once", {"service": sname, "kind": kind, "rpc": rname, "methods": ms})
                if keyword.iskeyword(rdm.snake(rname)):
                    bump("keyword_rpcs")
                probes.append({"service": sname, "kind": kind, "rpc": rname, "client": c.get("libraryClient"), "methods": ms,
                               "async": kind == "grpc-async"})
    # fix-up script
    fx = [n for n in files if n.startswith("scripts/fixup_") and n.endswith("_keywords.py")]
    table = None
    if len(fx) != 1:
        bad("fixup-script-count", fx)
    else:
        try:
            tree = ast.parse(files[fx[0]])
            for node in ast.walk(tree):
                if isinstance(node, (ast.AnnAssign, ast.Assign)):
                    tgt = node.target if isinstance(node, ast.AnnAssign) else node.targets[0]
                    if getattr(tgt, "id", None) == "METHOD_TO_PARAMS":
                        table = ast.literal_eval(node.value)
        except Exception as e:  # noqa
            bad("fixup-script-unreadable", f"{type(e).__name__}: {e}")
    if table is not None:
        byname = {}
        for p, s, m in refs.target_methods(req):
            byname.setdefault(rdm.snake(m.name), []).append(m)
        if set(table) != set(byname):
            bad("fixup-keys", {"missing": sorted(set(byname) - set(table)), "extra": sorted(set(table) - set(byname))})
        for key, ms in byname.items():
            if key not in table:
                continue
            bump("fixup_rows")
            row = [x[:-1] if x.endswith("_") else x for x in table[key]]
            ok = False
            wants = []
            for m in ms:
                d = model.desc(m.input_type)
                reqd = [f.name for f in refs.required_fields(d)]
                want = reqd + [f.name for f in d.fields if f.name not in reqd]
                nums = [f.number for f in d.fields]
                if nums != sorted(nums):
                    bump("out_of_order_rows")
                want_n = [x[:-1] if x.endswith("_") else x for x in want]
                wants.append(want)
                if row == want_n:
                    ok = True
            if not ok:
                bad("fixup-row", {"method": key, "table": list(table[key]), "expected": wants[0]},
                    numbers_out_of_order=any([f.number for f in model.desc(m.input_type).fields] != sorted(f.number for f in model.desc(m.input_type).fields) for m in ms))
    subs = sorted({p_.package[len(api.info["pkg"]):].strip(".") for p_ in req.proto_file if p_.name in req.file_to_generate} - {""})
    script = {"root_pkg": root, "probes": probes, "subs": subs}
    ev, rc, err = pipeline.run_runner("checks.c15", script, lib, timeout=200)
    if ev is None or "runner_crash" in ev or "library_import_error" in ev:
        return pipeline.runner_failed_result(ev, rc, err, api)
    for pr, r in zip(probes, ev["probes"]):
        bump("methods_resolved")
        if not r["class_ok"]:
            bad("library-client-missing", {"service": pr["service"], "kind": pr["kind"], "client": pr["client"]})
        elif r["missing"]:
            bad("listed-method-missing", {"service": pr["service"], "kind": pr["kind"], "rpc": pr["rpc"], "client": pr["client"],
                                          "methods": r["missing"]}, keyword_rpc=keyword.iskeyword(rdm.snake(pr["rpc"])))
        elif pr["async"] != (pr["client"] or "").endswith("AsyncClient"):
            bad("client-kind-mismatch", {"service": pr["service"], "kind": pr["kind"], "rpc": pr["rpc"], "client": pr["client"]})
    sig = {"tags": sorted(api.tags), "transport": case["transport"], "internal": case["internal"]}
    return {"verdict": "violated" if viol else "held", "violations": pipeline.diverse(viol, 40), "evaluations": counters.get("metadata_rpc_entries", 0) + counters.get("fixup_rows", 0),
            "nontrivial_sigs": [] if viol else [sig], "counters": counters,
            "sample": {"transport": case["transport"], "internal": case["internal"], "services": {k: sorted(v.get("clients", {})) for k, v in meta.get("services", {}).items()},
                       "fixup_row": (list(table.items())[0] if table else None)}}


def in_runner(script):
    import importlib
    import inspect
    root = importlib.import_module(script["root_pkg"])
    mods = [root] + [importlib.import_module(script["root_pkg"] + "." + sub) for sub in script.get("subs") or []]
    out = []
    for pr in script["probes"]:
        # a service of a proto sub-package is exported by that sub-package's module
        cls = next((getattr(m_, pr["client"] or "", None) for m_ in mods if isinstance(getattr(m_, pr["client"] or "", None), type)), None)
        r = {"class_ok": isinstance(cls, type), "missing": [], "is_coroutine": None}
        if r["class_ok"]:
            for m in pr["methods"]:
                if not hasattr(cls, m):
                    r["missing"].append(m)
                else:
                    r["is_coroutine"] = inspect.iscoroutinefunction(getattr(cls, m))
        out.append(r)
    return {"probes": out}
