"""Runner-side toolkit (runs in the fresh interpreter next to the emitted
library): loopback gRPC/HTTP servers that record what arrives before replying
from a script, a recording channel proxy, client factories, class lookup,
request materialisation, virtual time.

All monitor state is appended under one lock and read at quiescent points
(after the client call returned).
"""
import asyncio
import base64
import http.server
import importlib
import inspect
import json
import sys
import threading
import time
from concurrent import futures

import grpc

_LOCK = threading.Lock()


def b64(b):
    return base64.b64encode(b).decode()


def unb64(s):
    return base64.b64decode(s)


# ---------------------------------------------------------------------------
# gRPC loopback server

class GrpcServer:
    """Generic handler answering *every* method with a raw-bytes
    stream_stream handler (wire-compatible with all four arities)."""

    def __init__(self, workers=8):
        self.events = []
        self.scripts = {}      # method -> list of reply dicts (consumed in order)
        self.default = {"payloads": [""]}
        self.sticky = {}       # method -> reply used when the list is exhausted
        outer = self

        class H(grpc.GenericRpcHandler):
            def service(self, hcd):
                method = hcd.method
                md = [[k, v if isinstance(v, str) else b64(v)] for k, v in (hcd.invocation_metadata or ())]

                def handler(req_iter, ctx):
                    reqs = [bytes(r) for r in req_iter]
                    tr = ctx.time_remaining()
                    if tr is not None and tr > 1e9:      # grpc reports "no deadline" as ~2**63 ns
                        tr = None
                    with _LOCK:
                        ev = {"seq": len(outer.events), "method": method, "requests": [b64(r) for r in reqs],
                              "metadata": md, "time_remaining": tr, "t": time.monotonic()}
                        outer.events.append(ev)
                        q = outer.scripts.get(method)
                        if q:
                            rep = q.pop(0)
                        else:
                            rep = outer.sticky.get(method, outer.default)
                    if rep.get("delay"):
                        time.sleep(rep["delay"])
                    for p in rep.get("payloads", []):
                        yield unb64(p)
                    if rep.get("code"):
                        ctx.abort(getattr(grpc.StatusCode, rep["code"]), rep.get("msg", "scripted"))

                return grpc.stream_stream_rpc_method_handler(handler)

        self.server = grpc.server(futures.ThreadPoolExecutor(workers))
        self.server.add_generic_rpc_handlers((H(),))
        self.port = self.server.add_insecure_port("127.0.0.1:0")
        self.server.start()
        self.target = f"127.0.0.1:{self.port}"

    def script(self, method, replies, sticky=None):
        with _LOCK:
            self.scripts[method] = list(replies)
            if sticky is not None:
                self.sticky[method] = sticky

    def mark(self):
        with _LOCK:
            return len(self.events)

    def since(self, mark):
        with _LOCK:
            return [dict(e) for e in self.events[mark:]]

    def stop(self):
        self.server.stop(0)


class RecChannel(grpc.Channel):
    """grpc.Channel proxy logging (arity, path) of every multicallable made."""

    def __init__(self, ch, log):
        self._ch, self._log = ch, log

    def _mk(kind):  # noqa
        def f(self, method, *a, **k):
            with _LOCK:
                self._log.append([kind, method])
            return getattr(self._ch, kind)(method, *a, **k)
        return f

    unary_unary = _mk("unary_unary")
    unary_stream = _mk("unary_stream")
    stream_unary = _mk("stream_unary")
    stream_stream = _mk("stream_stream")

    def subscribe(self, *a, **k):
        return self._ch.subscribe(*a, **k)

    def unsubscribe(self, *a, **k):
        return self._ch.unsubscribe(*a, **k)

    def close(self):
        return self._ch.close()

    def __enter__(self):
        return self

    def __exit__(self, *a):
        self.close()


class RecAioChannel(grpc.aio.Channel):
    """grpc.aio.Channel proxy (isinstance check in the emitted transport)."""

    def __init__(self, ch, log):
        self._ch, self._log = ch, log

    def _mk(kind):  # noqa
        def f(self, method, *a, **k):
            with _LOCK:
                self._log.append([kind, method])
            return getattr(self._ch, kind)(method, *a, **k)
        return f

    unary_unary = _mk("unary_unary")
    unary_stream = _mk("unary_stream")
    stream_unary = _mk("stream_unary")
    stream_stream = _mk("stream_stream")

    async def close(self, grace=None):
        return await self._ch.close(grace)

    def get_state(self, try_to_connect=False):
        return self._ch.get_state(try_to_connect)

    async def wait_for_state_change(self, last_observed_state):
        return await self._ch.wait_for_state_change(last_observed_state)

    async def channel_ready(self):
        return await self._ch.channel_ready()

    async def __aenter__(self):
        return self

    async def __aexit__(self, *a):
        await self.close()

    def __getattr__(self, n):
        return getattr(self._ch, n)


# ---------------------------------------------------------------------------
# HTTP loopback server

class HttpServer:
    def __init__(self):
        self.events = []
        self.replies = []      # consumed in order
        self.default = {"status": 200, "body": "{}"}
        outer = self

        class HH(http.server.BaseHTTPRequestHandler):
            protocol_version = "HTTP/1.1"

            def _do(self):
                n = int(self.headers.get("Content-Length") or 0)
                body = self.rfile.read(n) if n else b""
                path, _, query = self.path.partition("?")
                with _LOCK:
                    outer.events.append({"seq": len(outer.events), "verb": self.command, "path": path, "query": query,
                                         "headers": [[k, v] for k, v in self.headers.items()], "body": b64(body)})
                    rep = outer.replies.pop(0) if outer.replies else outer.default
                data = rep.get("body", "{}")
                data = data.encode("utf-8") if isinstance(data, str) else data
                self.send_response(rep.get("status", 200))
                self.send_header("Content-Type", rep.get("ctype", "application/json"))
                self.send_header("Content-Length", str(len(data)))
                self.end_headers()
                self.wfile.write(data)

            do_GET = do_POST = do_PUT = do_PATCH = do_DELETE = _do

            def log_message(self, *a):
                pass

        self.httpd = http.server.ThreadingHTTPServer(("127.0.0.1", 0), HH)
        self.httpd.daemon_threads = True
        self.port = self.httpd.server_address[1]
        self.host = f"127.0.0.1:{self.port}"
        threading.Thread(target=self.httpd.serve_forever, daemon=True).start()

    def script(self, replies):
        with _LOCK:
            self.replies = list(replies)

    def mark(self):
        with _LOCK:
            return len(self.events)

    def since(self, mark):
        with _LOCK:
            return [dict(e) for e in self.events[mark:]]


# ---------------------------------------------------------------------------
# emitted-library access

def _transport(T, ch):
    """Transport on an explicit channel; a service without google.api.default_host has no default for `host` in some template sets."""
    try:
        return T(channel=ch)
    except TypeError as e:
        if "host" not in str(e):
            raise
        return T(channel=ch, host="hostless.verif.invalid")


class Lib:
    def __init__(self, root_pkg):
        self.root_pkg = root_pkg
        self.root = importlib.import_module(root_pkg)
        self._index = None

    def client_cls(self, svc, asyn=False):
        suffix = "AsyncClient" if asyn else "Client"
        # a service with internal methods (selective generation, keep-as-internal mode) names its clients Base<Service>...
        return getattr(self.root, svc + suffix, None) or getattr(self.root, "Base" + svc + suffix)

    def grpc_client(self, svc, target, log=None):
        C = self.client_cls(svc)
        T = C.get_transport_class("grpc")
        ch = grpc.insecure_channel(target)
        if log is not None:
            ch = RecChannel(ch, log)
        return C(transport=_transport(T, ch))

    def aio_client(self, svc, target, log=None):
        """Must be called inside a running event loop."""
        C = self.client_cls(svc, asyn=True)
        T = C.get_transport_class("grpc_asyncio")
        ch = grpc.aio.insecure_channel(target)
        if log is not None:
            ch = RecAioChannel(ch, log)
        return C(transport=_transport(T, ch))

    def rest_client(self, svc, host):
        from google.auth.credentials import AnonymousCredentials
        C = self.client_cls(svc)
        T = C.get_transport_class("rest")
        return C(transport=T(host=host, url_scheme="http", credentials=AnonymousCredentials()))

    # -- classes by proto full name ------------------------------------
    def index(self):
        if self._index is None:
            idx = {}
            top = self.root_pkg
            seen = set()

            def visit(cls):
                if id(cls) in seen:
                    return
                seen.add(id(cls))
                try:
                    fn = cls.pb().DESCRIPTOR.full_name
                except Exception:
                    return
                idx.setdefault(fn, cls)
                for v in vars(cls).values():
                    if isinstance(v, type) and hasattr(v, "pb") and hasattr(v, "_meta"):
                        visit(v)

            for name, mod in list(sys.modules.items()):
                if mod is None or not (name == top or name.startswith(top + ".")):
                    continue
                for v in list(vars(mod).values()):
                    if isinstance(v, type) and hasattr(v, "_meta") and hasattr(v, "pb"):
                        visit(v)
            self._index = idx
        return self._index

    def msg_cls(self, full_name):
        full_name = full_name.lstrip(".")
        c = self.index().get(full_name)
        if c is not None:
            return c
        from google.protobuf import descriptor_pool, message_factory
        d = descriptor_pool.Default().FindMessageTypeByName(full_name)
        return message_factory.GetMessageClass(d)

    def mk(self, full_name, data):
        """Materialise a request object of the generated (or pb2) class."""
        cls = self.msg_cls(full_name)
        if hasattr(cls, "deserialize"):
            return cls.deserialize(data)
        return cls.FromString(data)


def ser(obj):
    """(type full name, bytes) of a returned message; (None, None) for None."""
    if obj is None:
        return None, None
    t = type(obj)
    if hasattr(t, "serialize") and hasattr(t, "pb"):
        return t.pb().DESCRIPTOR.full_name, b64(t.serialize(obj))
    if hasattr(obj, "SerializeToString"):
        return obj.DESCRIPTOR.full_name, b64(obj.SerializeToString())
    return "python:" + t.__name__, None


def exc_info(e):
    code = getattr(e, "grpc_status_code", None)
    return {"type": type(e).__name__, "mro": [c.__name__ for c in type(e).__mro__][:8], "msg": str(e)[:300],
            "code": getattr(code, "name", None)}


async def drain_awaitable(r):
    n = 0
    while inspect.isawaitable(r):
        r = await r
        n += 1
    return r, n


# ---------------------------------------------------------------------------
# virtual time for google.api_core.retry

class VTime:
    def __init__(self):
        self.now = 1000.0
        self.sleeps = []

    def monotonic(self):
        return self.now

    def time(self):
        return self.now

    def sleep(self, d):
        with _LOCK:
            self.sleeps.append(d)
        self.now += d

    def __getattr__(self, n):
        return getattr(time, n)


class VRand:
    def __init__(self):
        self.calls = []

    def uniform(self, a, b):
        with _LOCK:
            self.calls.append([a, b])
        return b

    def __getattr__(self, n):
        import random
        return getattr(random, n)


def install_virtual_time():
    import google.api_core.retry.retry_unary as ru
    import google.api_core.retry.retry_base as rb
    import google.api_core.retry.retry_unary_async as rua
    vt, vr = VTime(), VRand()
    ru.time = vt
    rb.time = vt
    rb.random = vr
    rua.time = vt

    class VAsyncio:
        def __getattr__(self, n):
            return getattr(asyncio, n)

        async def sleep(self, d, *a, **k):
            vt.sleep(d)
            await asyncio.sleep(0)

    rua.asyncio = VAsyncio()
    return vt, vr
