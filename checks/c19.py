"""C19 — resource path helpers build and parse names as mutual inverses."""
import random
import re

from vlib import apigen, pipeline, rdm

ID = "C19"
LEVEL = "exploration"
RULE = ("cases = seeded APIs with ~37 resource patterns each from the grammar of the quantifier (1..6 variables, literal collection ids, "
        "trailing {v=**}, separators - _ ~ . inside a segment, singleton suffixes, '*'), visible through message resources and "
        "resource_reference/child_type to file-level definitions, plus the five common resources; for every pattern the sync and "
        "asyncio client helpers are called with random segment values free of the pattern's delimiters (build->parse, parse->build) "
        "and with strings that do not match under the most liberal reading (must parse to {}); evaluations = helper call pairs; "
        "distinct = distinct (pattern form, separator set, value/non-match class) that held")
ASSUMPTIONS = ["segment values are printable, non-empty, without the pattern's delimiters ('/' only inside a trailing ** variable)",
               "only the first pattern of a resource has helpers"]
CASE_TIMEOUT = 300
PARALLEL = 12
COMMON = {"billing_account": ("billingAccounts/{billing_account}", ["billing_account"]), "folder": ("folders/{folder}", ["folder"]),
          "organization": ("organizations/{organization}", ["organization"]), "project": ("projects/{project}", ["project"]),
          "location": ("projects/{project}/locations/{location}", ["project", "location"])}
ALPHA = "abcdefghijklmnopqrstuvwxyzABCDEFGHIJKLMNOPQRSTUVWXYZ0123456789 @:%+=!$&'()*,;[]{}|^#?<>\"\\üñ☃"


def floors(tier):
    k = 1 if tier == "quick" else 8
    return {"patterns": 200 * k, "helper_pairs_present": 200 * k, "roundtrips": 6000 * k, "nonmatch_probes": 4000 * k, "common_roundtrips": 200 * k,
            "form:sep": 30 * k, "form:dstar": 10 * k, "form:singleton": 10 * k, "form:wildcard": 5 * k,
            "held_below_request_or_reply": 60 * k, "held_two_or_more_hops_down": 30 * k, "held_by_lro_response_type": 20 * k, "declared_in_a_dependency_file": 30 * k}


def plan(seed, tier):
    n = 10 if tier == "quick" else 70
    cases = [{"id": f"res-{seed}-{i}", "seed": seed * 100003 + i} for i in range(n)]
    # the whole API moved into a proto sub-package (next to a sibling sub-package): nothing about the property changes
    cases += [{"id": f"res-sub-{seed}-{i}", "seed": seed * 100003 + 6000 + i, "subpkg": True} for i in range(2 if tier == "quick" else 7)]
    return cases


def build_api(case):
    rng = random.Random(case["seed"])
    api = apigen.respath_api(rng, "z%d" % (case["seed"] % 100000))
    return apigen.into_subpackage(api) if case.get("subpkg") else api


VAR = re.compile(r"\{([A-Za-z0-9_]+)(=\*\*)?\}")


def delimiters(pattern):
    lit = VAR.sub("\x00", pattern)
    return {c for c in lit if c in "/-_~."}


def liberal_regex(pattern):
    """literals exact, every variable any non-empty string."""
    if pattern == "*":
        return re.compile(r"^.*$", re.S)
    out, pos = [], 0
    for m in VAR.finditer(pattern):
        out.append(re.escape(pattern[pos:m.start()]))
        out.append("(.+)")
        pos = m.end()
    out.append(re.escape(pattern[pos:]))
    return re.compile("^" + "".join(out) + "$", re.S)


def build_ref(pattern, values):
    return VAR.sub(lambda m: values[m.group(1)], pattern)


def rand_value(rng, banned, allow_slash=False):
    n = rng.choice([1, 1, 2, 3, 5, 12])
    alpha = [c for c in ALPHA if c not in banned]
    s = "".join(rng.choice(alpha) for _ in range(n))
    if allow_slash and rng.random() < 0.6:
        s = s + "/" + "".join(rng.choice(alpha) for _ in range(rng.randint(1, 3))) + ("/x" if rng.random() < 0.5 else "")
    return s


def nonmatches(rng, pattern, path, values):
    """Strings constructed not to match under the liberal reading, with their class label."""
    lib = liberal_regex(pattern)
    cands = []
    lit_pos = [i for i, c in enumerate(path) if c.isalpha()]
    # corrupt a literal character of the first collection id
    first_lit = VAR.split(pattern)[0]
    if first_lit:
        j = rng.randrange(len(first_lit))
        if first_lit[j] != "/":
            cands.append(("literal-char", path[:j] + "#" + path[j + 1:]))
    cands.append(("prefix", "x/" + path))
    cands.append(("drop-first-char", path[1:]))
    # drop a whole literal collection segment
    segs = path.split("/")
    if len(segs) > 2:
        cands.append(("drop-segment", "/".join(segs[1:])))
    # empty the last variable
    vs = VAR.findall(pattern)
    if vs:
        last = vs[-1][0]
        v2 = dict(values)
        v2[last] = ""
        cands.append(("empty-variable", build_ref(pattern, v2)))
    # replace a non-slash separator
    for sep in "-_~.":
        if sep in delimiters(pattern):
            lit = VAR.split(pattern)
            # find the separator between two variables in the built path: rebuild with another char
            p2 = VAR.sub(lambda m: values[m.group(1)], pattern.replace("}" + sep + "{", "}" + "A" + "{"))
            cands.append(("separator-replaced", p2))
            break
    if not pattern.endswith("}"):
        cands.append(("suffix-dropped", path[: path.rfind("/")]))
        cands.append(("suffix-extended", path + "x"))
    cands.append(("empty", ""))
    return [(k, s) for k, s in cands if not lib.match(s)]


def run_case(case):
    scratch = pipeline.case_scratch("c19")
    api = build_api(case)
    req, g, lib = pipeline.build_and_generate(api, scratch)
    if not g.ok:
        return pipeline.gen_failed_result(g, api)
    rng = random.Random(case["seed"] ^ 0xC19)
    items = []
    for r in api.info["resources"]:
        helper = rdm.snake(r["short"])
        items.append({"helper": helper, "pattern": r["pattern"], "vars": r["vars"], "form": r["form"], "how": r["how"], "common": False,
                      "held_by": r.get("held_by")})
    for k, (pat, vs) in COMMON.items():
        items.append({"helper": "common_" + k, "pattern": pat, "vars": vs, "form": "common", "how": "common", "common": True})
    for it in items:
        pat = it["pattern"]
        banned = delimiters(pat) | {"/"}
        trials = []
        for t in range(24 if not it["common"] else 10):
            if pat == "*":
                trials.append({"values": {}, "path": rand_value(rng, set(), allow_slash=True), "non": []})
                continue
            vals = {}
            for m in VAR.finditer(pat):
                vals[m.group(1)] = rand_value(rng, banned, allow_slash=bool(m.group(2)))
                if m.group(2) and rng.random() < 0.4:
                    # a ** value that repeats a collection id of its own pattern (drafts/books/final under .../books/{book=**})
                    lits = [x for x in VAR.sub("/", pat).split("/") if x and x.isalnum()]
                    if lits:
                        vals[m.group(1)] = rand_value(rng, banned) + "/" + rng.choice(lits) + "/" + rand_value(rng, banned)
                        it["dstar_value_repeats_a_literal"] = it.get("dstar_value_repeats_a_literal", 0) + 1
            path = build_ref(pat, vals)
            trials.append({"values": vals, "path": path, "non": nonmatches(rng, pat, path, vals)})
        it["trials"] = trials
    script = {"root_pkg": apigen.runner_root(api), "items": items}
    ev, rc, err = pipeline.run_runner("checks.c19", script, lib, timeout=200)
    if ev is None or "runner_crash" in ev or "library_import_error" in ev:
        return pipeline.runner_failed_result(ev, rc, err, api)
    viol, counters, sigs = [], {}, set()

    def bump(k, n=1):
        counters[k] = counters.get(k, 0) + n

    sample = None
    for it, r in zip(items, ev["items"]):
        bump("patterns")
        bump("form:" + it["form"])
        if (it.get("how") or "").startswith("dep_"):
            bump("declared_in_a_dependency_file")
        hb = it.get("held_by") or "Req"
        if hb != "Req":
            bump("held_below_request_or_reply")
            if hb in ("ReqLevel2", "ReqLevel3", "ReplyLevel2"):
                bump("held_two_or_more_hops_down")
            if hb.startswith("LroResult"):
                bump("held_by_lro_response_type")
        meta = set(re.findall(r"[.^$*+?()\[\]{}|\\]", VAR.sub("", it["pattern"]))) if it["pattern"] != "*" else set()
        mech = {"form": it["form"], "separators": sorted(delimiters(it["pattern"]) - {"/"}), "literal_has_regex_metachar": bool(meta)}

        def bad(clause, detail, **extra):
            viol.append({"clause": clause, "detail": {"helper": it["helper"], "pattern": it["pattern"], "why": detail}, "mech": {**mech, **extra}})

        for kind in ("sync", "async"):
            o = r[kind]
            if o.get("missing"):
                bad("helper-missing", f"{kind} client lacks {o['missing']}", client=kind)
                continue
            bump("helper_pairs_present")
            for t, res in zip(it["trials"], o["trials"]):
                bump("common_roundtrips" if it["common"] else "roundtrips")
                if res.get("error"):
                    bad("helper-raised", res["error"], client=kind)
                    break
                if it["pattern"] == "*":
                    if res["parsed"] != {}:
                        pass        # '*' accepts anything; the helper has no variables to return
                    continue
                if res["built"] != t["path"]:
                    bad("build-differs", f"built {res['built']!r}, reference {t['path']!r}", client=kind)
                    break
                if res["parsed"] != t["values"]:
                    bad("parse-of-built-differs", f"parse({t['path']!r}) = {res['parsed']} expected {t['values']}", client=kind)
                    break
                if res["rebuilt"] != t["path"]:
                    bad("rebuild-differs", f"{res['rebuilt']!r} != {t['path']!r}", client=kind)
                    break
                if "parsed_again" in res:
                    bump("reparse_after_caller_wrote_into_result")
                    if res["parsed_again"] != t["values"]:
                        bad("parse-of-built-differs", f"second parse({t['path']!r}) = {res['parsed_again']} after the caller wrote into the first result; expected {t['values']}",
                            client=kind, after_write=True)
                        break
                stop = False
                for (cls, s), got in zip(t["non"], res["non"]):
                    bump("nonmatch_probes")
                    if got != {}:
                        bad("nonmatch-parses-nonempty", f"parse({s!r}) = {got} although it does not match {it['pattern']!r} ({cls})",
                            client=kind, nonmatch_class=cls)
                        stop = True
                        break
                    sigs.add(f"{it['form']}|{mech['separators']}|non:{cls}")
                if stop:
                    break
                sigs.add(f"{it['form']}|{mech['separators']}|roundtrip")
            if sample is None and it["form"] == "sep" and o.get("trials"):
                sample = {"helper": it["helper"], "pattern": it["pattern"], "values": it["trials"][0]["values"],
                          "built": o["trials"][0].get("built"), "nonmatching_probes": it["trials"][0]["non"][:3]}
    return {"verdict": "violated" if viol else "held", "violations": pipeline.diverse(viol, 40),
            "evaluations": counters.get("roundtrips", 0) + counters.get("common_roundtrips", 0) + counters.get("nonmatch_probes", 0),
            "nontrivial_sigs": sorted(sigs), "counters": counters, "sample": sample or {}}


# ---------------------------------------------------------------------------

def in_runner(script):
    from vlib import rt
    lib = rt.Lib(script["root_pkg"])
    out = []
    C, A = lib.client_cls("Paths"), lib.client_cls("Paths", asyn=True)
    for it in script["items"]:
        r = {}
        for kind, cls in (("sync", C), ("async", A)):
            b, p = it["helper"] + "_path", "parse_" + it["helper"] + "_path"
            if not hasattr(cls, b) or not hasattr(cls, p):
                r[kind] = {"missing": b if not hasattr(cls, b) else p}
                continue
            build, parse = getattr(cls, b), getattr(cls, p)
            trials = []
            for t in it["trials"]:
                o = {}
                try:
                    if it["pattern"] == "*":
                        o["parsed"] = parse(t["path"])
                    else:
                        o["built"] = build(**t["values"])
                        o["parsed"] = parse(t["path"])
                        o["rebuilt"] = build(**o["parsed"]) if set(o["parsed"]) == set(t["values"]) else None
                        # a caller may do as it likes with what a parse returned: every reply is recorded as a copy and the
                        # returned object is then written into, so a later parse that hands out the same object shows it
                        o["non"] = []
                        for _, s in t["non"]:
                            d = parse(s)
                            o["non"].append(dict(d) if isinstance(d, dict) else d)
                            if isinstance(d, dict):
                                d["vp_scribble"] = s
                        if isinstance(o["parsed"], dict):
                            d, o["parsed"] = o["parsed"], dict(o["parsed"])
                            d["vp_scribble"] = t["path"]
                            o["parsed_again"] = parse(t["path"])
                except BaseException as e:  # noqa
                    o["error"] = rt.exc_info(e)
                trials.append(o)
            r[kind] = {"trials": trials}
        out.append(r)
    return {"items": out}
