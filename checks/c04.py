"""C04 — REST calls transcode each request exactly as its google.api.http rule prescribes."""
import json
import random
import urllib.parse

from google.protobuf import json_format
from google.protobuf.descriptor import FieldDescriptor as FD

from vlib import apigen, pipeline, rdm, refs

ID = "C04"
LEVEL = "exploration"
RULE = ("cases = seeded HTTP-binding-heavy APIs x rest-numeric-enums off/on; every bound RPC is called through the emitted REST "
        "transport against a loopback HTTP server recording verb, raw path, raw query, headers and body; the judge reconstructs the "
        "request from path+query+body under the input descriptors (http-ref) and compares with what the caller sent, checks binding "
        "choice, body content, required-default query parameters, enum encoding, JSON key spelling and the decoded reply; unbound and "
        "client-streaming RPCs must raise NotImplementedError and send nothing; distinct = distinct (binding shape, chosen binding "
        "index, body kind, numeric-enum mode, reply kind) combinations observed with a non-trivial valuation")
ASSUMPTIONS = ["path-variable values drawn from URL-path-safe characters", "maps / repeated messages / Struct-like types / empty "
               "sub-messages are not placed in query position (the HTTP mapping defines no encoding)", "requests + http.server trusted"]
CASE_TIMEOUT = 400
PARALLEL = 12
PER_RPC = 6


def floors(tier):
    k = 1 if tier == "quick" else 8
    return {"calls_judged": 700 * k, "binding:additional": 30 * k, "body:*": 100 * k, "body:field": 100 * k, "body:none": 150 * k,
            "required_default_checked": 100 * k, "numeric_enum_calls": 200 * k, "refusals_checked": 20 * k, "replies_compared": 600 * k,
            "stream_replies": 10 * k}


def plan(seed, tier):
    n = 20 if tier == "quick" else 160
    cases = [{"id": f"rest-{seed}-{i}", "seed": seed * 100003 + i, "numeric": i % 2 == 1} for i in range(n)]
    # the whole API moved into a proto sub-package (next to a sibling sub-package): nothing about the property changes
    cases += [{"id": f"rest-sub-{seed}-{i}", "seed": seed * 100003 + 6000 + i, "numeric": i % 2 == 1, "subpkg": True} for i in range(2 if tier == "quick" else 10)]
    return cases


def build_api(case):
    rng = random.Random(case["seed"])
    api = apigen.rest_api(rng, "h%d" % (case["seed"] % 100000), numeric=case["numeric"])
    return apigen.into_subpackage(api) if case.get("subpkg") else api


def queryable_skip(fd):
    if rdm.is_map(fd):
        return True
    if fd.type == FD.TYPE_MESSAGE:
        if fd.label == FD.LABEL_REPEATED:
            return True
        if fd.message_type.full_name in rdm.CONTAINER_WKT:
            return True
    return False


def prune_empty(m):
    for fd, v in list(m.ListFields()):
        if fd.type == FD.TYPE_MESSAGE and fd.label != FD.LABEL_REPEATED and not rdm.is_map(fd):
            if fd.message_type.full_name.startswith("google.protobuf."):
                continue
            prune_empty(v)
            if v.ByteSize() == 0:
                m.ClearField(fd.name)


def make_request(rng, model, m, bindings, target):
    """Valuation matching binding `target` (and none before it)."""
    verb, tmpl, body = bindings[target]
    msg = model.new(m.input_type)
    pvars = refs.path_vars(tmpl)
    top_path = {v.split(".")[0] for v, _ in pvars}
    desc = msg.DESCRIPTOR
    for fd in desc.fields:
        if rng.random() > 0.65:
            continue
        in_body = body == "*" or fd.name == body
        if in_body:
            rdm.set_field(rng, msg, fd, max_depth=2)
        else:
            if queryable_skip(fd):
                continue
            if fd.type == FD.TYPE_MESSAGE:
                sub = getattr(msg, fd.name)
                sub.SetInParent()
                rdm.fill(rng, sub, depth=1, max_depth=3, skip=queryable_skip)
            else:
                rdm.set_field(rng, msg, fd)
    # clear every path variable of every binding, then set the target's
    for _, t, _b in bindings:
        for v, _ in refs.path_vars(t):
            parts = v.split(".")
            cur = msg
            ok = True
            for p in parts[:-1]:
                if not cur.HasField(p):
                    ok = False
                    break
                cur = getattr(cur, p)
            if ok:
                cur.ClearField(parts[-1])
    for v, pat in pvars:
        fd = _leaf_fd(desc, v)
        if fd.type == FD.TYPE_STRING:
            refs.set_path(msg, v, refs.sample_for_template(rng, pat))
        else:
            refs.set_path(msg, v, rng.choice([1, 7, 42, 2147483647]))
    prune_empty(msg)
    # the target must be the first matching binding
    ch = refs.choose_binding(bindings, msg)
    if ch is None or ch[0] != target:
        return None
    return msg


def _leaf_fd(desc, dotted):
    cur = desc
    parts = dotted.split(".")
    for p in parts[:-1]:
        cur = cur.fields_by_name[p].message_type
    return cur.fields_by_name[parts[-1]]


def reply_for(rng, model, m, numeric):
    y = model.new(m.output_type)
    if m.output_type != ".google.protobuf.Empty":
        rdm.fill(rng, y, max_depth=2)
    d = json_format.MessageToDict(y, use_integers_for_enums=numeric)
    return y, d


def run_case(case):
    scratch = pipeline.case_scratch("c04")
    api = build_api(case)
    req, g, lib = pipeline.build_and_generate(api, scratch)
    if not g.ok:
        return pipeline.gen_failed_result(g, api)
    model = rdm.Model(req)
    rng = random.Random(case["seed"] ^ 0xC04)
    numeric = case["numeric"]
    calls = []
    for p, s, m in refs.target_methods(req):
        bindings = refs.http_bindings(m)
        base = {"service": s.name, "rpc": m.name, "method": rdm.py_method(m.name), "req_type": m.input_type.lstrip("."),
                "resp_type": m.output_type.lstrip("."), "void": m.output_type == ".google.protobuf.Empty"}
        if not bindings or m.client_streaming:
            x = model.new(m.input_type)
            x.name = "things/a"
            calls.append({**base, "kind": "refuse", "request": rdm.b64(x.SerializeToString()), "streaming_req": m.client_streaming})
            continue
        for rep in range(PER_RPC):
            target = rng.randrange(len(bindings)) if rep >= 2 else 0
            msg = make_request(rng, model, m, bindings, target)
            if msg is None:
                continue
            call = {**base, "kind": "stream" if m.server_streaming else "unary", "request": rdm.b64(msg.SerializeToString()),
                    "target": target}
            if m.server_streaming:
                items = [reply_for(rng, model, m, numeric) for _ in range(rng.randint(0, 3))]
                call["reply_body"] = json.dumps([d for _, d in items])
                call["reply_msgs"] = [rdm.b64(y.SerializeToString()) for y, _ in items]
            else:
                y, d = reply_for(rng, model, m, numeric)
                if d is not None and isinstance(d, dict):
                    d = dict(d)
                    d["unknownExtraKey"] = {"nested": [1, 2, 3]}
                call["reply_body"] = json.dumps(d)
                call["reply_msgs"] = [rdm.b64(y.SerializeToString())]
            calls.append(call)
    script = {"root_pkg": apigen.runner_root(api), "calls": calls}
    ev, rc, err = pipeline.run_runner("checks.c04", script, lib, timeout=300)
    if ev is None or "runner_crash" in ev or "library_import_error" in ev:
        return pipeline.runner_failed_result(ev, rc, err, api)
    methods = {m.name: m for _, _, m in refs.target_methods(req)}
    viol, counters, sigs = [], {}, set()

    def bump(k, n=1):
        counters[k] = counters.get(k, 0) + n

    sample = None
    for call, r in zip(calls, ev["results"]):
        m = methods[call["rpc"]]
        v = judge(model, m, call, r, numeric, bump)
        bump("calls_judged")
        for x in v:
            x.setdefault("mech", {})
            x["mech"].update({"kind": call["kind"], "numeric": numeric})
            x["detail"] = {"rpc": call["rpc"], "why": x["detail"], "binding": call.get("target")}
        viol.extend(v)
        if not v and call["kind"] != "refuse":
            b = refs.http_bindings(m)[call["target"]]
            sigs.add(f"{b[0]}|{_shape(b[1])}|idx{min(call['target'], 1)}|body:{b[2] or 'none'}|num:{numeric}|{call['kind']}|{'void' if call['void'] else 'value'}")
            if sample is None and r.get("events"):
                e = r["events"][0]
                sample = {"rpc": call["rpc"], "binding": list(b), "verb": e["verb"], "path": e["path"], "query": e["query"][:300],
                          "body": rdm.unb64(e["body"]).decode("utf-8", "replace")[:300]}
    return {"verdict": "violated" if viol else "held", "violations": pipeline.diverse(viol, 40), "evaluations": counters.get("calls_judged", 0),
            "nontrivial_sigs": sorted(sigs), "counters": counters, "sample": sample or {}}


def _shape(tmpl):
    import re
    return re.sub(r"\{([^}=]+)(=[^}]+)?\}", lambda mm: "{" + ("nested" if "." in mm.group(1) else "top") + (mm.group(2) or "") + "}", tmpl)


def json_key_check(d, desc, numeric, bad, where):
    """Keys must be lowerCamel json names; enums names xor numbers."""
    if desc.full_name.startswith("google.protobuf."):
        return
    if not isinstance(d, dict):
        return
    byjson = {f.json_name: f for f in desc.fields}
    for k, v in d.items():
        f = byjson.get(k)
        if f is None:
            bad("json-key", f"{where}: key {k!r} is not the lowerCamel name of a field of {desc.full_name}")
            continue
        vals = v if isinstance(v, list) else [v]
        if rdm.is_map(f):
            vf = f.message_type.fields_by_name["value"]
            vals = list(v.values()) if isinstance(v, dict) else []
            f2 = vf
        else:
            f2 = f
        for x in vals:
            if f2.type == FD.TYPE_ENUM:
                if numeric and not isinstance(x, int):
                    bad("enum-encoding", f"{where}.{k}: {x!r} sent as name although numeric enums were requested")
                if not numeric and not isinstance(x, str):
                    bad("enum-encoding", f"{where}.{k}: {x!r} sent as number although numeric enums were not requested")
            elif f2.type == FD.TYPE_MESSAGE and isinstance(x, dict):
                json_key_check(x, f2.message_type, numeric, bad, where + "." + k)


def judge(model, m, call, r, numeric, bump):
    v = []

    def bad(clause, detail, **mech):
        v.append({"clause": clause, "detail": detail, "mech": mech})

    evs = r.get("events") or []
    if call["kind"] == "refuse":
        bump("refusals_checked")
        if (r.get("error") or {}).get("type") != "NotImplementedError":
            bad("unbound-not-refused", f"expected NotImplementedError, got {r.get('error') or r.get('returned')}")
        if evs:
            bad("unbound-sent-something", f"{len(evs)} HTTP requests")
        return v
    if r.get("error"):
        bad("client-raised", r["error"])
        return v
    if len(evs) != 1:
        bad("call-count", f"{len(evs)} HTTP requests for one invocation")
        return v
    e = evs[0]
    bindings = refs.http_bindings(m)
    sent = model.parse(call["req_type"], rdm.unb64(call["request"]))
    exp = refs.choose_binding(bindings, sent)
    idx, exp_path = exp
    verb, tmpl, body = bindings[idx]
    bump("binding:additional" if idx else "binding:primary")
    bump("body:" + ("*" if body == "*" else ("field" if body else "none")))
    path = urllib.parse.unquote(e["path"])
    if e["verb"] != verb or path != exp_path:
        # maybe it instantiates another declared binding?
        other = [i for i, (vb, t, _b) in enumerate(bindings) if vb == e["verb"] and refs.match_binding(t, path) is not None]
        bad("binding-choice" if other else "not-a-declared-binding",
            f"sent {e['verb']} {path}; expected binding #{idx} {verb} {exp_path}; matches declared {other}")
        return v
    pv = refs.match_binding(tmpl, path)
    # path part
    pm = model.new(call["req_type"])
    for var, val in pv.items():
        fd = _leaf_fd(pm.DESCRIPTOR, var)
        refs.set_path(pm, var, val if fd.type == FD.TYPE_STRING else int(val))
    # body part
    raw = rdm.unb64(e["body"])
    bm = model.new(call["req_type"])
    if body:
        try:
            bd = json.loads(raw.decode("utf-8"))
        except Exception as ex:  # noqa
            bad("body-not-json", f"{ex}: {raw[:200]!r}")
            return v
        if body == "*":
            json_key_check(bd, bm.DESCRIPTOR, numeric, bad, "body")
            try:
                json_format.ParseDict(bd, bm)
            except Exception as ex:  # noqa
                bad("body-not-parsable", str(ex)[:300])
                return v
        else:
            fd = bm.DESCRIPTOR.fields_by_name[body]
            sub = getattr(bm, body)
            sub.SetInParent()
            json_key_check(bd, fd.message_type, numeric, bad, "body")
            try:
                json_format.ParseDict(bd, sub)
            except Exception as ex:  # noqa
                bad("body-not-parsable", str(ex)[:300])
                return v
            if not sent.HasField(body) and sub.ByteSize() == 0:
                bm.ClearField(body)
    elif raw not in (b"",):
        bad("body-present-without-body-rule", raw[:200])
    # query part
    pairs = urllib.parse.parse_qsl(e["query"], keep_blank_values=True)
    sys_pairs = [(k, x) for k, x in pairs if k.startswith("$")]
    pairs = [(k, x) for k, x in pairs if not k.startswith("$")]
    if numeric:
        bump("numeric_enum_calls")
        if ("$alt", "json;enum-encoding=int") not in sys_pairs:
            bad("numeric-enum-marker-missing", f"system params {sys_pairs}")
    elif sys_pairs:
        bad("unexpected-system-parameter", f"{sys_pairs}")
    DEFAULT_LITERALS = ("", "0", "0.0", "false")
    req_top = {f.name: f for f in refs.required_fields(bm.DESCRIPTOR)}
    prim_path_top = {v.split(".")[0] for v, _ in refs.path_vars(bindings[0][1])}
    prim_body = bindings[0][2]

    def in_query_under_primary(name):
        return name not in prim_path_top and prim_body != "*" and name != prim_body

    if body == "*" and pairs:
        # known mechanism (C04-required-default-additional-binding): the table of REQUIRED fields to re-send with their default is
        # built for the primary binding; it is applied unchanged when an additional binding with body "*" is selected
        only_table = idx > 0 and all(
            (_query_leaf(bm.DESCRIPTOR, k) is not None and "." not in k and _query_leaf(bm.DESCRIPTOR, k).name in req_top
             and x in DEFAULT_LITERALS + ("b''",)
             and in_query_under_primary(_query_leaf(bm.DESCRIPTOR, k).name)) for k, x in pairs)
        bad("query-with-star-body", f"{pairs[:5]}", only_required_defaults_of_primary_binding=bool(only_table))
        if only_table:
            pairs = []          # judge the rest of the request without the re-sent defaults
    # a default-valued REQUIRED bytes field is re-sent as the Python literal b'' (known finding,
    # classified by mechanism); judge the rest of the request with the literal removed
    fixed_pairs = []
    for k, x in pairs:
        fd = _query_leaf(bm.DESCRIPTOR, k)
        if fd is not None and fd.type == FD.TYPE_BYTES and x == "b''" and fd in refs.required_fields(bm.DESCRIPTOR) \
                and getattr(sent, fd.name) == b"":
            bad("query-value", f"required bytes field {k} with default value travels as the literal \"b''\" (not base64)",
                required_bytes_default=True)
            x = ""
        fixed_pairs.append((k, x))
    pairs = fixed_pairs
    try:
        qm, tree = refs.query_to_message(model, call["req_type"], pairs)
    except refs.HttpRefError as ex:
        bad(ex.clause, ex.detail)
        return v
    # enum encoding in the query
    for k, x in pairs:
        fd = _query_leaf(bm.DESCRIPTOR, k)
        if fd is not None and fd.type == FD.TYPE_ENUM:
            if numeric and not x.lstrip("-").isdigit():
                bad("enum-encoding", f"query {k}={x}: name although numeric enums requested")
            if not numeric and x.lstrip("-").isdigit():
                bad("enum-encoding", f"query {k}={x}: number although numeric enums not requested")
    # required scalars not bound to path/body must be present even when default
    # a field that is a path variable of *some* binding of the method is not judged here: the statement does not
    # say which binding "not bound to path" refers to (the emitted table is built from the primary binding)
    any_path_top = {var.split(".")[0] for _vb, t, _b in bindings for var, _ in refs.path_vars(t)}
    bound_top = {var.split(".")[0] for var in pv} | ({body} if body and body != "*" else set()) | any_path_top
    if body != "*":
        for fd in refs.required_fields(bm.DESCRIPTOR):
            if fd.name in bound_top or fd.type in (FD.TYPE_MESSAGE, FD.TYPE_ENUM) or fd.label == FD.LABEL_REPEATED:
                continue
            bump("required_default_checked")
            keys = {k.split(".")[0] for k, _ in pairs}
            if fd.name not in keys and fd.json_name not in keys:
                bad("required-field-missing-from-query", f"{fd.name} (value {getattr(sent, fd.name)!r})", default=not bool(getattr(sent, fd.name)),
                    # same mechanism: under the primary binding the field is covered by path or body, so the table lacks it
                    not_in_table_of_primary_binding=bool(idx > 0 and not getattr(sent, fd.name) and not in_query_under_primary(fd.name)))
    # no duplication: a query key naming a path variable of the chosen binding (whatever its value)
    pv_names = set(pv)
    for k, x in pairs:
        segs, cur, names = k.split("."), bm.DESCRIPTOR, []
        for seg in segs:
            f = refs._field_by_segment(cur, seg) if cur is not None else None
            if f is None:
                break
            names.append(f.name)
            cur = f.message_type if f.type == FD.TYPE_MESSAGE else None
        if ".".join(names) in pv_names:
            req_names = {f.name for f in refs.required_fields(bm.DESCRIPTOR)}
            bad("duplicated-field", f"path variable {'.'.join(names)} also travels as query parameter {k}={x!r}",
                required_default_resent_for_additional_binding=bool(idx > 0 and names[0] in req_names and x in ("", "0", "0.0", "false")
                                                                    and names[0] not in {v.split(".")[0] for v, _ in refs.path_vars(bindings[0][1])}))
    lp, lq, lb = refs.leaves(pm), refs.leaves(qm), refs.leaves(bm)
    for a, b, names in ((lp, lq, "path/query"), (lp, lb, "path/body"), (lq, lb, "query/body")):
        dup = a & b
        # required default-valued scalars are re-sent by design only when absent from the message: never with a path var
        if dup:
            bad("duplicated-field", f"{names}: {sorted(dup)[:5]}")
    # reconstruction
    rec = model.new(call["req_type"])
    rec.MergeFrom(bm)
    rec.MergeFrom(qm)
    rec.MergeFrom(pm)
    # a REQUIRED field with explicit presence (proto3 optional) that the caller left unset is re-sent with its default by the rule
    # the statement gives for required fields: on the wire "unset" and "explicitly default" coincide for it
    for fd in refs.required_fields(rec.DESCRIPTOR):
        if fd.has_presence and fd.type != FD.TYPE_MESSAGE and rec.HasField(fd.name) and not sent.HasField(fd.name) \
                and getattr(rec, fd.name) == fd.default_value:
            rec.ClearField(fd.name)
    if rec != sent:
        bad("reconstruction-differs", _msg_diff(sent, rec))
    # reply
    ret = r["returned"]
    bump("replies_compared")
    if call["kind"] == "stream":
        bump("stream_replies")
    if call["void"]:
        if ret != [[None, None]]:
            bad("void-not-none", f"{ret}")
        return v
    exp_r = call["reply_msgs"]
    if len(ret) != len(exp_r):
        bad("reply-count", f"caller got {len(ret)} values, server sent {len(exp_r)}")
        return v
    for (tname, data), sentr in zip(ret, exp_r):
        if tname != call["resp_type"] or data is None:
            bad("reply-type", f"caller got {tname}, declared {call['resp_type']}")
            break
        a, b = model.parse(call["resp_type"], rdm.unb64(data)), model.parse(call["resp_type"], rdm.unb64(sentr))
        if a != b:
            bad("reply-payload", _msg_diff(b, a))
            break
    return v


def _query_leaf(desc, key):
    cur = desc
    f = None
    for seg in key.split("."):
        if cur is None:
            return None
        f = refs._field_by_segment(cur, seg)
        if f is None:
            return None
        cur = f.message_type if f.type == FD.TYPE_MESSAGE else None
    return f


def _msg_diff(want, got):
    a, b = str(want).splitlines(), str(got).splitlines()
    only_a = [x for x in a if x not in b][:6]
    only_b = [x for x in b if x not in a][:6]
    return {"sent_only": only_a, "reconstructed_only": only_b}


# ---------------------------------------------------------------------------

def in_runner(script):
    from vlib import rt
    lib = rt.Lib(script["root_pkg"])
    http = rt.HttpServer()
    results = []
    clients = {}
    for call in script["calls"]:
        svc = call["service"]
        if svc not in clients:
            clients[svc] = lib.rest_client(svc, http.host)
        c = clients[svc]
        out = {}
        req = lib.mk(call["req_type"], rt.unb64(call["request"]))
        if call.get("reply_body") is not None:
            http.script([{"status": 200, "body": call["reply_body"]}])
        mark = http.mark()
        try:
            fn = getattr(c, call["method"])
            if call.get("streaming_req"):
                ret = fn(requests=iter([req]))
            else:
                ret = fn(request=req)
            if call["kind"] == "stream":
                vals = [rt.ser(x) for x in ret]
            elif call["kind"] == "refuse":
                vals = [("python:" + type(ret).__name__, None)]
            else:
                vals = [rt.ser(ret)]
            out["returned"] = [list(x) for x in vals]
        except BaseException as e:  # noqa
            out["error"] = rt.exc_info(e)
        out["events"] = http.since(mark)
        http.script([])
        results.append(out)
    return {"results": results}
