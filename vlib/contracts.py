"""Runtime contracts (icontract) on the generator's text helpers, evaluated on every call the real generator makes
(in situ) and on direct fuzz calls.

usage: python -m vlib.contracts <out.json> <spec.json>
spec: {"requests": [paths of CodeGeneratorRequest files], "wrap_fuzz": [[text, width, offset, indent], ...],
       "rst_fuzz": [[text, width, indent, nl], ...], "ws_fuzz": [source, ...]}

The conditions record a verdict and return True (they never abort what they observe); zero evaluations of a
contract is reported so that the caller can call the run inconclusive.
"""
import ast
import json
import os
import re
import sys

HERE = os.path.dirname(os.path.dirname(os.path.abspath(__file__)))
sys.path.insert(0, os.path.join(HERE, ".deps"))
import icontract  # noqa: E402

LOG = {"evaluations": {"wrap": 0, "rst_plain": 0, "rst_markup": 0, "fix_whitespace": 0},
       "in_situ": {"wrap": 0, "rst_plain": 0, "rst_markup": 0, "fix_whitespace": 0},
       "violations": [], "generation_errors": [], "widths_seen": {}, "ws_parsed": 0}
MODE = {"in_situ": True}
MAXV = 12


class ContractBroken(Exception):
    pass


_PER_CLAUSE = {}


def _viol(contract, clause, **detail):
    # capped per (contract, clause, in-situ or fuzz): a frequent (possibly known) violation must never crowd out another kind
    k = (contract, clause, MODE["in_situ"])
    _PER_CLAUSE[k] = _PER_CLAUSE.get(k, 0) + 1
    if _PER_CLAUSE[k] <= MAXV:
        full = detail.get("text") or detail.get("code") or ""
        detail.setdefault("has_tab", "\t" in full)
        detail["has_triple_quote"] = '\"\"\"' in full
        d = {k: (v if not isinstance(v, str) else v[:600]) for k, v in detail.items()}
        LOG["violations"].append({"contract": contract, "clause": clause, "in_situ": MODE["in_situ"], **d})


_WS = re.compile(r"[ \t\n\r\x0b\x0c]+")


def words(s):
    """Words as textwrap sees them: separated by ASCII whitespace only (U+2028 etc. are part of a word)."""
    return [w for w in _WS.split(s) if w]


MARKUP = re.compile(r"[|*`_[\]]")


def judge_wrap(text, width, offset, indent, result, contract="wrap"):
    if not text:
        if result != "":
            _viol(contract, "empty-text", text=text, result=result)
        return
    off = indent if offset is None else offset
    if words(result) != words(text):
        a, b = words(text), words(result)
        i = next((k for k, (x, y) in enumerate(zip(a, b)) if x != y), min(len(a), len(b)))
        _viol(contract, "words-differ", text=text, width=width, offset=off, indent=indent, result=result,
              first_difference={"index": i, "input": a[i:i + 3], "output": b[i:i + 3], "n_in": len(a), "n_out": len(b)},
              has_tab="\t" in text)
    for ln, line in enumerate(result.split("\n")):
        limit = width - off if ln == 0 else width
        if len(line) > limit and len(words(line)) > 1:
            _viol(contract, "line-too-long", text=text, width=width, offset=off, indent=indent, line=line, line_no=ln, limit=limit,
                  has_tab="\t" in text)
            break


def wrap_post(text, width, offset, indent, result):
    LOG["evaluations"]["wrap"] += 1
    if MODE["in_situ"]:
        LOG["in_situ"]["wrap"] += 1
        k = f"{width}/{offset}/{indent}"
        LOG["widths_seen"][k] = LOG["widths_seen"].get(k, 0) + 1
    try:
        judge_wrap(text, width, offset, indent, result)
    except Exception as e:  # noqa
        _viol("wrap", "monitor-error", error=repr(e))
    return True


def rst_post(text, width, indent, nl, source_format, result):
    plain = not MARKUP.search(text)
    key = "rst_plain" if plain else "rst_markup"
    LOG["evaluations"][key] += 1
    if MODE["in_situ"]:
        LOG["in_situ"][key] += 1
    try:
        if result.endswith('"'):
            _viol("rst", "ends-with-double-quote", text=text, result=result)
        if '"""' in result:
            _viol("rst", "contains-triple-quote", text=text, result=result)
        if result.endswith("\\"):
            _viol("rst", "ends-with-backslash", text=text, result=result)
        if plain:
            got = words(result)
            want = words(text)
            if got != want and not (got[:-1] == want[:-1] and got and want and got[-1] == want[-1] + "."):
                _viol("rst", "words-differ", text=text, width=width, indent=indent, result=result, has_tab="\t" in text)
            rlines = result.split("\n")
            for ln, line in enumerate(rlines):
                # rst() wraps to width-indent with offset indent+3 and re-indents continuation lines; the period it appends
                # after a trailing quote/backslash is a docstring guard, not wrapping: it may exceed the width by one
                slack = 1 if (ln == len(rlines) - 1 and line.endswith(('".', "\\."))) else 0
                if len(line) > width + slack and len(words(line)) > 1:
                    _viol("rst", "line-too-long", text=text, width=width, indent=indent, line=line, line_no=ln, has_tab="\t" in text)
                    break
    except Exception as e:  # noqa
        _viol("rst", "monitor-error", error=repr(e))
    return True


class _Norm(ast.NodeTransformer):
    def visit_Constant(self, node):
        if isinstance(node.value, str):
            return ast.copy_location(ast.Constant(value="".join(node.value.split())), node)
        if isinstance(node.value, bytes):
            return ast.copy_location(ast.Constant(value=b"".join(node.value.split())), node)
        return node


def norm_ast(src):
    return ast.dump(_Norm().visit(ast.parse(src)))


_RAW_WS = [None]


def ws_post(code, result):
    LOG["evaluations"]["fix_whitespace"] += 1
    if MODE["in_situ"]:
        LOG["in_situ"]["fix_whitespace"] += 1
    try:
        if not result.endswith("\n") or result.endswith("\n\n") or (len(result) > 1 and result[-2].isspace()):
            _viol("fix_whitespace", "not-exactly-one-trailing-newline", tail=repr(result[-20:]))
        if "".join(code.split()) != "".join(result.split()):
            _viol("fix_whitespace", "non-whitespace-characters-changed", code=code[:400], result=result[:400])
        again = _RAW_WS[0](result) if _RAW_WS[0] else result
        if again != result:
            i = next((k for k, (x, y) in enumerate(zip(again, result)) if x != y), min(len(again), len(result)))
            _viol("fix_whitespace", "not-idempotent", around=repr(result[max(0, i - 60):i + 60]), second=repr(again[max(0, i - 60):i + 60]))
        try:
            a = norm_ast(code)
        except SyntaxError:
            a = None
        if a is not None:
            LOG["ws_parsed"] += 1
            try:
                b = norm_ast(result)
            except SyntaxError as e:
                _viol("fix_whitespace", "output-does-not-parse", error=str(e), code=code[:400])
                b = a
            if a != b:
                _viol("fix_whitespace", "ast-changed", code=code[:600], result=result[:600])
    except Exception as e:  # noqa
        _viol("fix_whitespace", "monitor-error", error=repr(e))
    return True


def attach():
    """Wrap the functions at every binding site, before Generator copies them into the Jinja filter table."""
    import importlib
    import gapic.utils as utils
    lines = importlib.import_module("gapic.utils.lines")
    rstmod = sys.modules["gapic.utils.rst"]      # the attribute gapic.utils.rst is the function
    import gapic.generator.formatter as formatter
    import gapic.generator.generator as generator
    raw_ws = formatter.fix_whitespace
    _RAW_WS[0] = raw_ws
    wrap_c = icontract.ensure(wrap_post, error=ContractBroken)(lines.wrap)
    lines.wrap = wrap_c
    rstmod.wrap = wrap_c
    utils.wrap = wrap_c
    rst_c = icontract.ensure(rst_post, error=ContractBroken)(rstmod.rst)
    rstmod.rst = rst_c
    utils.rst = rst_c
    ws_c = icontract.ensure(ws_post, error=ContractBroken)(raw_ws)
    formatter.fix_whitespace = ws_c
    if hasattr(generator, "formatter"):
        generator.formatter.fix_whitespace = ws_c
    return wrap_c, rst_c, ws_c


def main():
    out_path, spec_path = sys.argv[1:3]
    with open(spec_path) as fh:
        spec = json.load(fh)
    import gapic.schema.api  # noqa
    wrap_c, rst_c, ws_c = attach()
    from gapic.cli import generate as gen_mod
    for r in spec.get("requests", []):
        MODE["in_situ"] = True
        try:
            with open(r, "rb") as fi, open(r + ".out", "wb") as fo:
                gen_mod.generate.callback(fi, fo)
        except BaseException as e:  # noqa
            LOG["generation_errors"].append({"request": os.path.basename(r), "error": f"{type(e).__name__}: {e}"[:400]})
        finally:
            if os.path.exists(r + ".out"):
                os.remove(r + ".out")
    MODE["in_situ"] = False
    for text, width, offset, indent in spec.get("wrap_fuzz", []):
        try:
            wrap_c(text, width, offset=offset, indent=indent)
        except BaseException as e:  # noqa
            _viol("wrap", "raised", text=text, width=width, offset=offset, indent=indent, error=f"{type(e).__name__}: {e}")
    for text, width, indent, nl in spec.get("rst_fuzz", []):
        try:
            rst_c(text, width=width, indent=indent, nl=nl)
        except BaseException as e:  # noqa
            _viol("rst", "raised", text=text, width=width, indent=indent, error=f"{type(e).__name__}: {e}")
    for src in spec.get("ws_fuzz", []):
        try:
            ws_c(src)
        except BaseException as e:  # noqa
            _viol("fix_whitespace", "raised", code=src[:300], error=f"{type(e).__name__}: {e}")
    with open(out_path, "w") as fh:
        json.dump(LOG, fh)


if __name__ == "__main__":
    main()
