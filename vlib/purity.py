"""In-process run of the real generator under audit/profile monitors.

usage: python -m vlib.purity <out.json> <request.bin> [<request.bin> ...]
Each request is generated in the order given (the same file may be repeated:
interleaved repeats expose caches shared between requests).
"""
import hashlib
import io
import json
import os
import sys
import threading

IMPURE_C = {
    ("time", "time"), ("time", "time_ns"), ("time", "monotonic"), ("time", "monotonic_ns"), ("time", "perf_counter"),
    ("time", "localtime"), ("time", "gmtime"), ("time", "strftime"), ("time", "ctime"), ("time", "asctime"),
    ("posix", "urandom"), ("os", "urandom"),
    ("_random", "random"), ("_random", "getrandbits"), ("_random", "seed"),
    ("_socket", "gethostname"), ("_uuid", "generate_time_safe"), ("posix", "getlogin"),
}
IMPURE_QUAL = {"datetime.now", "datetime.utcnow", "datetime.today", "date.today", "Random.random", "Random.getrandbits"}
IMPURE_PY = {("random", None), ("uuid", "uuid1"), ("uuid", "uuid4"), ("secrets", None), ("socket", None),
             ("getpass", None), ("platform", None), ("tempfile", None)}


def main():
    out_path, reqs = sys.argv[1], sys.argv[2:]
    log = {"opens": [], "procs": [], "sockets": [], "impure": [], "audit_events": 0, "c_calls_seen": 0}
    repo_marker = os.sep + "gapic" + os.sep

    def from_generator(frame):
        """Is the nearest non-stdlib caller generator code (gapic package or a template)?"""
        f = frame
        depth = 0
        while f is not None and depth < 6:
            fn = f.f_code.co_filename
            if fn.endswith(".j2") or (repo_marker in fn and "site-packages" not in fn):
                return fn, f.f_lineno
            if "site-packages" in fn or fn.startswith(sys.base_prefix):
                # third-party / stdlib frame in between: keep walking a little
                pass
            f = f.f_back
            depth += 1
        return None

    def audit(event, args):
        log["audit_events"] += 1
        if event == "open":
            p = args[0]
            if isinstance(p, (str, bytes)):
                log["opens"].append([os.fsdecode(p), str(args[1])])
        elif event == "subprocess.Popen":
            log["procs"].append([str(args[0]), [str(a) for a in (args[1] or [])][:6]])
        elif event.startswith("socket."):
            log["sockets"].append(event)
        elif event in ("os.system", "os.exec", "os.posix_spawn", "os.fork"):
            log["procs"].append([event, [str(a) for a in args][:3]])

    sys.addaudithook(audit)

    def prof(frame, event, arg):
        if event == "c_call":
            log["c_calls_seen"] += 1
            mod = getattr(arg, "__module__", None)
            name = getattr(arg, "__name__", None)
            qual = getattr(arg, "__qualname__", "")
            if (mod, name) in IMPURE_C or qual in IMPURE_QUAL:
                who = from_generator(frame)
                if who:
                    log["impure"].append({"call": f"{mod}.{qual or name}", "from": who[0], "line": who[1]})
        elif event == "call":
            co = frame.f_code
            m = frame.f_globals.get("__name__", "")
            top = m.split(".")[0]
            for pm, pf in IMPURE_PY:
                if top == pm and (pf is None or co.co_name == pf):
                    who = from_generator(frame.f_back) if frame.f_back else None
                    if who and not co.co_name.startswith("_"):
                        log["impure"].append({"call": f"{m}.{co.co_name}", "from": who[0], "line": who[1]})

    import gapic.schema.api  # noqa  (imports happen before monitoring: import-time work is not generation)
    from gapic.cli import generate as gen_mod
    digests = []
    try:
        for i, r in enumerate(reqs):
            # the profile hook (every C call) is expensive: first run only; the
            # audit hook stays on for all runs
            if i == 0:
                threading.setprofile(prof)
                sys.setprofile(prof)
            else:
                sys.setprofile(None)
                threading.setprofile(None)
            tmp_out = r + ".out"
            try:
                with open(r, "rb") as fi, open(tmp_out, "wb") as fo:
                    gen_mod.generate.callback(fi, fo)
                with open(tmp_out, "rb") as fh:
                    digests.append(hashlib.sha256(fh.read()).hexdigest())
            except BaseException as e:  # noqa
                digests.append("ERROR:" + type(e).__name__ + ":" + str(e)[:200])
            finally:
                if os.path.exists(tmp_out):
                    os.remove(tmp_out)
    finally:
        sys.setprofile(None)
        threading.setprofile(None)
    log["digests"] = digests
    with open(out_path, "w") as fh:
        json.dump(log, fh)


if __name__ == "__main__":
    main()
