#!/usr/bin/env python3
"""Regenerates MANIFEST.json from the table below (kept in one place so that
the manifest is valid at every commit)."""
import json
import os

HERE = os.path.dirname(os.path.dirname(os.path.abspath(__file__)))

# id -> (category, technique, text, note, design_ref)
CHECKS = {
    "C01": ("exploration",
            "runtime monitoring: real plugin run + compile()/import monitor in a fresh interpreter + transport-registry introspection",
            "Held on N seeded well-formed API descriptions x option sets: every emitted .py compiled, every sub-module imported in a fresh "
            "interpreter, client classes and transport registry compared with what the request asked for. Sampling of an unbounded input "
            "space, so 'held on what was generated', not verified.",
            "identity pandoc stand-in; python 3.12 + installed runtime deps; style-guide identifiers only", "7.1"),
    "C02": ("translation_validation",
            "runtime monitoring: per emitted types module, runtime descriptors + two-way byte round trips + JSON keys judged against a private DescriptorPool of the input",
            "One obligation set per emitted types package: every message/enum class is compared with the input DescriptorProto (canonical form), and "
            "random valuations are round-tripped both ways and through JSON under the *input* descriptors. Held on the programs generated this run.",
            "proto-plus/protobuf runtime trusted; NaN excluded; reserved list read from the tree", "7.2"),
    "C03": ("exploration",
            "runtime monitoring: loopback gRPC server recording path/bytes/metadata + channel proxy recording arity, offline oracle over the event log",
            "Every RPC of N generated libraries is invoked through the real sync and asyncio clients (message/dict/omitted request) and the recorded "
            "wire events are judged against the input descriptors. Sampling; held on the calls observed.",
            "grpcio loopback trusted; style-guide RPC names", "7.3"),
    "C11": ("exploration",
            "runtime monitoring: response-boundary monitor (file names, feature bits) vs layout reference + metamorphic option-noise pairs",
            "N seeded requests varying package shape, file names and options; response names judged by a reference written from the statement; each "
            "request re-run with unknown/repeated options must give byte-identical output.",
            "lower-case proto packages, lower_snake/dotted/keyword file names", "7.11"),
}

NOT_YET = {}


def main():
    props = [json.loads(l) for l in open(os.path.join(HERE, "properties.jsonl"))]
    checks, na = [], []
    for p in props:
        pid = p["id"]
        if pid in CHECKS:
            cat, tech, text, note, ref = CHECKS[pid]
            checks.append({
                "property_id": pid,
                "quick_cmd": f"./check {pid} --tier quick",
                "thorough_cmd": f"./check {pid} --tier thorough",
                "evidence_file": f"evidence/{pid}.json",
                "replay_cmd_template": f"./check {pid} --replay {{path}}",
                "engine": "vlib",
                "level_claimed": {"category": cat, "text": text, "design_ref": "DESIGN.md §" + ref},
                "level_note": note,
                "technique": tech,
            })
        else:
            na.append({"property_id": pid, "reason": NOT_YET.get(
                pid, "check not built yet in this round (runtime monitor planned in DESIGN.md §7); not claimed until it runs silent on the unchanged tree")})
    man = {
        "version": 1,
        "setup_cmd": "./setup.sh",
        "hooks": {
            "guard": "GAPIC_GENERATOR_PYTHON_VERIF",
            "enable": "no source hooks are needed: monitors attach from outside (subprocess boundary, audit/profile hooks, "
                      "attribute wrapping, PYPANDOC_PANDOC, explicit transports); checks export GAPIC_GENERATOR_PYTHON_VERIF=1 anyway",
            "baseline_off_cmd": "cd /repo && /venv/bin/python -m pytest -ra -q -p no:cacheprovider --timeout=900 --continue-on-collection-errors",
            "source_commits": [],
            "add_only": True,
        },
        "engines": [
            {"name": "vlib", "path": "vlib/", "serves_properties": sorted(CHECKS),
             "kind_free_text": "runtime monitoring: seeded API-description generator -> real plugin subprocess -> emitted code executed in a "
                               "fresh interpreter against loopback gRPC/HTTP servers and channel proxies -> offline oracles built from the "
                               "input descriptors (private DescriptorPool) and small reference models"},
        ],
        "checks": checks,
        "not_applicable": na,
        "notes": "Every check: ./check <ID> --tier quick|thorough (reads VERIF_SEED). Exit 0 held / 1 VIOLATION / 2 INCONCLUSIVE. "
                 "known_findings.json lists recorded genuine defects by mechanism.",
    }
    with open(os.path.join(HERE, "MANIFEST.json"), "w") as fh:
        json.dump(man, fh, indent=1)
    print("checks:", [c["property_id"] for c in checks], "not_applicable:", len(na))


if __name__ == "__main__":
    main()
