"""C05 — flattened keyword arguments are equivalent to an explicit request object."""
import itertools
import keyword
import random

from google.api import client_pb2
from google.protobuf.descriptor import FieldDescriptor as FD

from vlib import apigen, pipeline, rdm, refs

ID = "C05"
LEVEL = "exploration"
RULE = ("cases = seeded method_signature-heavy APIs; per method the emitted signature is compared with the declared fields in order; "
        "for every subset of the flattened parameters (all subsets when <= 4 parameters, 12 random otherwise) and a valuation with "
        "falsy/boundary members, the kwargs call and the request call are made through sync and asyncio clients and the four recorded "
        "payloads must decode to the reference message with exactly that subset set; each parameter alone (truthy and falsy) together "
        "with a request must raise ValueError with the server call counter unchanged; distinct = distinct (field kind, dotted?, "
        "value class truthy/falsy/empty, client kind, call form) combinations that held")
ASSUMPTIONS = ["signatures with colliding leaf names are not generated", "grpcio loopback trusted"]
CASE_TIMEOUT = 500
PARALLEL = 12


def floors(tier):
    k = 1 if tier == "quick" else 8
    return {"signatures_checked": 80 * k, "equivalence_pairs": 1500 * k, "mixed_calls": 400 * k, "falsy_kwargs": 300 * k,
            "mixed_falsy": 100 * k, "mixed_calls_with_dict_request": 150 * k, "dotted_kwargs": 60 * k, "foreign_request_calls": 20 * k}


def plan(seed, tier):
    n = 10 if tier == "quick" else 100
    cases = [{"id": f"flat-{seed}-{i}", "seed": seed * 100003 + i} for i in range(n)]
    # the whole API moved into a proto sub-package (next to a sibling sub-package): nothing about the property changes
    cases += [{"id": f"flat-sub-{seed}-{i}", "seed": seed * 100003 + 6000 + i, "subpkg": True} for i in range(2 if tier == "quick" else 10)]
    return cases


def build_api(case):
    rng = random.Random(case["seed"])
    api = apigen.flat_api(rng, "f%d" % (case["seed"] % 100000))
    return apigen.into_subpackage(api) if case.get("subpkg") else api


def reserved_names():
    import sys
    sys.path.insert(0, pipeline.REPO)
    from gapic.utils.reserved_names import RESERVED_NAMES
    return set(RESERVED_NAMES)


def declared_params(model, m, pkg, reserved):
    """[(dotted key, leaf fd, python parameter name)] in declared order."""
    out, seen = [], set()
    inp = model.desc(m.input_type)
    foreign = not m.input_type.lstrip(".").startswith(pkg + ".")
    for sig in m.options.Extensions[client_pb2.method_signature]:
        for part in sig.split(","):
            part = part.strip()
            if not part or part in seen:
                continue
            seen.add(part)
            cur = inp
            fd = None
            for seg in part.split("."):
                fd = cur.fields_by_name[seg]
                cur = fd.message_type
            if foreign and fd.type in (FD.TYPE_MESSAGE, FD.TYPE_ENUM):
                continue
            pname = fd.name + ("_" if (fd.name in reserved or keyword.iskeyword(fd.name)) else "")
            out.append((part, fd, pname))
    return out


def value_for(rng, model, fd, cls):
    """(typed-JSON kwarg value, setter(msg_parent), class label)."""
    if rdm.is_map(fd):
        tmp = model.cls(fd.containing_type)()
        if cls != "empty":
            rdm.set_field(rng, tmp, fd, max_depth=1)
        return tmp, "map"
    tmp = model.cls(fd.containing_type)()
    if fd.label == FD.LABEL_REPEATED:
        if cls != "empty":
            rdm.set_field(rng, tmp, fd, max_depth=1)
        return tmp, "repeated"
    if fd.type == FD.TYPE_MESSAGE:
        sub = getattr(tmp, fd.name)
        sub.SetInParent()
        if cls != "empty":
            rdm.fill(rng, sub, max_depth=1)
        return tmp, "message"
    if cls == "falsy" or cls == "empty":
        v = {FD.TYPE_STRING: "", FD.TYPE_BYTES: b"", FD.TYPE_BOOL: False, FD.TYPE_FLOAT: 0.0, FD.TYPE_DOUBLE: 0.0}.get(fd.type, 0)
        if fd.has_presence:
            setattr(tmp, fd.name, v)   # explicit presence
        return (tmp, v), "scalar"
    rdm.set_field(rng, tmp, fd, nonzero=True)
    return tmp, "scalar"


def encode_kw(fd, holder):
    """typed JSON for the python value a user would pass."""
    if isinstance(holder, tuple):
        holder, raw = holder
        return rdm._leaf(fd, raw)
    v = getattr(holder, fd.name)
    if rdm.is_map(fd):
        vfd = fd.message_type.fields_by_name["value"]
        return {"__map": [[k, ({"__msg": vfd.message_type.full_name, "bytes": rdm.b64(x.SerializeToString())}
                               if vfd.type == FD.TYPE_MESSAGE else rdm._leaf(vfd, x))] for k, x in v.items()]}
    if fd.label == FD.LABEL_REPEATED:
        if fd.type == FD.TYPE_MESSAGE:
            return [{"__msg": fd.message_type.full_name, "bytes": rdm.b64(x.SerializeToString())} for x in v]
        return [rdm._leaf(fd, x) for x in v]
    if fd.type == FD.TYPE_MESSAGE:
        return {"__msg": fd.message_type.full_name, "bytes": rdm.b64(v.SerializeToString())}
    return rdm._leaf(fd, v)


def apply_expected(exp, key, fd, holder, loose=False):
    """loose: an empty list/map given for a dotted key does not create the parent
    messages (the statement does not say whether `sub.kinds=[]` implies `sub {}`;
    the sync client creates it, the asyncio client does not - both are accepted)."""
    cur = exp
    parts = key.split(".")
    if loose and (rdm.is_map(fd) or fd.label == FD.LABEL_REPEATED):
        h = holder[0] if isinstance(holder, tuple) else holder
        if len(getattr(h, fd.name)) == 0:
            return
    for p in parts[:-1]:
        cur = getattr(cur, p)
        cur.SetInParent()
    if isinstance(holder, tuple):
        holder = holder[0]
    if rdm.is_map(fd) or fd.label == FD.LABEL_REPEATED:
        tmp = type(cur)()
        getattr(tmp, fd.name).MergeFrom(getattr(holder, fd.name))
        cur.MergeFrom(tmp)
    elif fd.type == FD.TYPE_MESSAGE:
        getattr(cur, fd.name).SetInParent()
        getattr(cur, fd.name).CopyFrom(getattr(holder, fd.name))
    else:
        if holder.HasField(fd.name) if fd.has_presence else True:
            setattr(cur, fd.name, getattr(holder, fd.name))


def run_case(case):
    scratch = pipeline.case_scratch("c05")
    api = build_api(case)
    req, g, lib = pipeline.build_and_generate(api, scratch)
    if not g.ok:
        return pipeline.gen_failed_result(g, api)
    model = rdm.Model(req)
    rng = random.Random(case["seed"] ^ 0xC05)
    reserved = reserved_names()
    pkg = api.info["pkg"]
    methods = []
    for p, s, m in refs.target_methods(req):
        params = declared_params(model, m, pkg, reserved)
        n = len(params)
        if n <= 4:
            subsets = [c for r in range(n + 1) for c in itertools.combinations(range(n), r)]
        else:
            subsets = [tuple(sorted(rng.sample(range(n), rng.randint(1, n)))) for _ in range(12)] + [tuple(range(n))]
        trials = []
        for S in subsets:
            for cls in (["truthy", "falsy"] if S else ["truthy"]):
                exp = model.new(m.input_type)
                exp_alt = model.new(m.input_type)
                kwargs, meta = {}, []
                for idx in S:
                    key, fd, pname = params[idx]
                    c = cls if rng.random() < 0.7 else rng.choice(["truthy", "falsy", "empty"])
                    holder, kind = value_for(rng, model, fd, c)
                    kwargs[pname] = encode_kw(fd, holder)
                    apply_expected(exp, key, fd, holder)
                    apply_expected(exp_alt, key, fd, holder, loose=True)
                    meta.append([key, kind, c])
                trials.append({"kwargs": kwargs, "expected": rdm.b64(exp.SerializeToString()),
                               "expected_alt": rdm.b64(exp_alt.SerializeToString()), "meta": meta})
        mixed = []
        for key, fd, pname in params:
            for cls in ("truthy", "falsy", "empty"):
                holder, kind = value_for(rng, model, fd, cls)
                mixed.append({"kwargs": {pname: encode_kw(fd, holder)}, "meta": [key, kind, cls]})
        base = model.new(m.input_type)
        rdm.fill(rng, base, max_depth=1, p_set=0.3)
        methods.append({"service": s.name, "full_service": f"{p.package}.{s.name}", "rpc": m.name, "method": rdm.py_method(m.name),
                        "req_type": m.input_type.lstrip("."), "params": [pn for _, _, pn in params], "trials": trials,
                        "mixed": mixed, "base_request": rdm.b64(base.SerializeToString()),
                        "foreign": not m.input_type.lstrip(".").startswith(pkg + ".")})
    script = {"root_pkg": apigen.runner_root(api), "methods": methods}
    ev, rc, err = pipeline.run_runner("checks.c05", script, lib, timeout=400)
    if ev is None or "runner_crash" in ev or "library_import_error" in ev:
        return pipeline.runner_failed_result(ev, rc, err, api)
    viol, counters, sigs = [], {}, set()

    def bump(k, n=1):
        counters[k] = counters.get(k, 0) + n

    def bad(clause, rpc, detail, **mech):
        viol.append({"clause": clause, "detail": {"rpc": rpc, "why": detail}, "mech": mech})

    sample = None
    for mth, r in zip(methods, ev["methods"]):
        rpc = mth["rpc"]
        for kind in ("sync", "async"):
            bump("signatures_checked")
            want = ["self", "request"] + mth["params"] + ["retry", "timeout", "metadata"]
            got = r["signature"][kind]
            if got.get("names") != want:
                bad("signature-order", rpc, f"{kind}: parameters {got.get('names')} expected {want}", client=kind)
            elif any(k != "KEYWORD_ONLY" for k in got["kinds"][2:]):
                bad("signature-order", rpc, f"{kind}: parameters after request are not keyword-only: {got['kinds']}", client=kind)
        for t, tr in zip(mth["trials"], r["trials"]):
            exp = model.parse(mth["req_type"], rdm.unb64(t["expected"]))
            exp_alt = model.parse(mth["req_type"], rdm.unb64(t["expected_alt"]))
            for form in ("kwargs_sync", "kwargs_async", "request_sync", "request_async"):
                o = tr[form]
                bump("equivalence_pairs")
                falsy = any(c in ("falsy", "empty") for _, _, c in t["meta"])
                if falsy and form.startswith("kwargs"):
                    bump("falsy_kwargs")
                if any("." in k for k, _, _ in t["meta"]) and form.startswith("kwargs"):
                    bump("dotted_kwargs")
                if mth["foreign"]:
                    bump("foreign_request_calls")
                mech = {"form": form, "kinds": sorted({k for _, k, _ in t["meta"]}), "falsy": falsy}
                if o.get("error"):
                    bad("call-raised", rpc, {"form": form, "error": o["error"], "meta": t["meta"]}, **mech)
                    continue
                if len(o["payloads"]) != 1:
                    bad("call-count", rpc, {"form": form, "n": len(o["payloads"])}, **mech)
                    continue
                got = model.parse(mth["req_type"], rdm.unb64(o["payloads"][0]))
                if got != exp and not (form.startswith("kwargs") and got == exp_alt):
                    bad("payload-differs", rpc, {"form": form, "meta": t["meta"], "got": str(got)[:300], "expected": str(exp)[:300]}, **mech)
                else:
                    for key, k2, c in t["meta"]:
                        sigs.add(f"{k2}|{'dotted' if '.' in key else 'top'}|{c}|{form}")
            if sample is None and t["meta"] and not tr["kwargs_sync"].get("error"):
                sample = {"rpc": rpc, "kwargs": t["kwargs"], "meta": t["meta"], "payload": tr["kwargs_sync"]["payloads"][0][:120]}
        for t, tr in zip(mth["mixed"], r["mixed"]):
            for kind in ("sync", "async"):
                o = tr[kind]
                bump("mixed_calls")
                if t["meta"][2] != "truthy":
                    bump("mixed_falsy")
                mech = {"client": kind, "value_class": t["meta"][2], "kind": t["meta"][1], "request_form": o.get("request_form")}
                if o.get("request_form") == "dict":
                    bump("mixed_calls_with_dict_request")
                if (o.get("error") or {}).get("type") != "ValueError":
                    bad("mixed-call-not-rejected", rpc, {"client": kind, "meta": t["meta"], "outcome": o.get("error") or "returned"}, **mech)
                if o["server_calls"] != 0:
                    bad("mixed-call-sent", rpc, {"client": kind, "meta": t["meta"], "server_calls": o["server_calls"]}, **mech)
                if not o.get("request_unchanged", True):
                    bad("mixed-call-mutated-request", rpc, {"client": kind, "meta": t["meta"]}, **mech)
    return {"verdict": "violated" if viol else "held", "violations": pipeline.diverse(viol, 40),
            "evaluations": counters.get("equivalence_pairs", 0) + counters.get("mixed_calls", 0),
            "nontrivial_sigs": sorted(sigs), "counters": counters, "sample": sample or {}}


# ---------------------------------------------------------------------------

def in_runner(script):
    import asyncio
    import inspect
    from vlib import rt
    from vlib.rdm import decode_py
    import copy
    lib = rt.Lib(script["root_pkg"])
    srv = rt.GrpcServer()

    def as_request_dict(obj):
        """The request as the dict a caller would write (proto-plus to_dict / MessageToDict for pb2 request types)."""
        if hasattr(type(obj), "to_dict"):
            return type(obj).to_dict(obj, use_integers_for_enums=True, including_default_value_fields=False)
        from google.protobuf import json_format
        return json_format.MessageToDict(obj, preserving_proto_field_name=True)

    def materialise(x):
        if isinstance(x, dict):
            if "__msg" in x:
                return lib.mk(x["__msg"], rt.unb64(x["bytes"]))
            if "__map" in x:
                return {k: materialise(v) for k, v in x["__map"]}
            return decode_py(x)
        if isinstance(x, list):
            return [materialise(v) for v in x]
        return x

    out = {"methods": []}
    sync_clients, results = {}, []
    for mth in script["methods"]:
        svc = mth["service"]
        if svc not in sync_clients:
            sync_clients[svc] = lib.grpc_client(svc, srv.target)
        c = sync_clients[svc]
        fn = getattr(c, mth["method"])
        afn = getattr(lib.client_cls(svc, asyn=True), mth["method"])
        r = {"signature": {}, "trials": [], "mixed": []}
        for kind, f in (("sync", getattr(type(c), mth["method"])), ("async", afn)):
            try:
                ps = list(inspect.signature(f).parameters.values())
                r["signature"][kind] = {"names": [p.name for p in ps], "kinds": [p.kind.name for p in ps]}
            except BaseException as e:  # noqa
                r["signature"][kind] = {"error": str(e)}
        for t in mth["trials"]:
            tr = {}
            for form in ("kwargs_sync", "request_sync"):
                mark = srv.mark()
                o = {}
                try:
                    if form.startswith("kwargs"):
                        fn(**{k: materialise(v) for k, v in t["kwargs"].items()})
                    else:
                        fn(request=lib.mk(mth["req_type"], rt.unb64(t["expected"])))
                except BaseException as e:  # noqa
                    o["error"] = rt.exc_info(e)
                o["payloads"] = [x for ev in srv.since(mark) for x in ev["requests"]]
                tr[form] = o
            r["trials"].append(tr)
        for ti, t in enumerate(mth["mixed"]):
            mark = srv.mark()
            o = {}
            reqobj = lib.mk(mth["req_type"], rt.unb64(mth["base_request"]))
            as_dict = ti % 2 == 1          # a request may be given as a dict: that is "a request" too
            if as_dict:
                reqobj = as_request_dict(reqobj)
                before = copy.deepcopy(reqobj)
            try:
                fn(request=reqobj, **{k: materialise(v) for k, v in t["kwargs"].items()})
            except BaseException as e:  # noqa
                o["error"] = rt.exc_info(e)
            o["server_calls"] = len(srv.since(mark))
            o["request_form"] = "dict" if as_dict else "message"
            if as_dict:
                o["request_unchanged"] = reqobj == before
            else:
                o["request_unchanged"] = rt.ser(reqobj)[1] == rt.b64(rt.unb64(rt.ser(lib.mk(mth["req_type"], rt.unb64(mth["base_request"])))[1]))
            r["mixed"].append({"sync": o})
        results.append(r)

    async def amain():
        aclients = {}
        for mth, r in zip(script["methods"], results):
            svc = mth["service"]
            if svc not in aclients:
                aclients[svc] = lib.aio_client(svc, srv.target)
            fn = getattr(aclients[svc], mth["method"])
            for t, tr in zip(mth["trials"], r["trials"]):
                for form in ("kwargs_async", "request_async"):
                    mark = srv.mark()
                    o = {}
                    try:
                        if form.startswith("kwargs"):
                            await fn(**{k: materialise(v) for k, v in t["kwargs"].items()})
                        else:
                            await fn(request=lib.mk(mth["req_type"], rt.unb64(t["expected"])))
                    except BaseException as e:  # noqa
                        o["error"] = rt.exc_info(e)
                    o["payloads"] = [x for ev in srv.since(mark) for x in ev["requests"]]
                    tr[form] = o
            for ti, (t, tr) in enumerate(zip(mth["mixed"], r["mixed"])):
                mark = srv.mark()
                o = {}
                reqobj = lib.mk(mth["req_type"], rt.unb64(mth["base_request"]))
                as_dict = ti % 2 == 1
                if as_dict:
                    reqobj = as_request_dict(reqobj)
                    before = copy.deepcopy(reqobj)
                try:
                    await fn(request=reqobj, **{k: materialise(v) for k, v in t["kwargs"].items()})
                except BaseException as e:  # noqa
                    o["error"] = rt.exc_info(e)
                o["server_calls"] = len(srv.since(mark))
                o["request_form"] = "dict" if as_dict else "message"
                if as_dict:
                    o["request_unchanged"] = reqobj == before
                else:
                    o["request_unchanged"] = rt.ser(reqobj)[1] == rt.ser(lib.mk(mth["req_type"], rt.unb64(mth["base_request"])))[1]
                tr["async"] = o

    asyncio.run(amain())
    srv.stop()
    out["methods"] = results
    return out
