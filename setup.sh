#!/bin/sh
# Offline setup: third-party monitor libraries beside the repository's interpreter.
here="$(cd "$(dirname "$0")" && pwd)"
cd "$here" || exit 1
if [ ! -d .deps/icontract ]; then
  PIP_NO_INDEX=1 /venv/bin/pip install --quiet --no-index --find-links /opt/veriftools/wheels --target .deps icontract >/dev/null 2>&1 || \
  PIP_NO_INDEX=1 /venv/bin/pip install --no-index --find-links /opt/veriftools/wheels --target .deps icontract
fi
chmod +x check tools/pandoc 2>/dev/null
/venv/bin/python -c "import sys; sys.path.insert(0, '.deps'); import icontract; print('icontract', icontract.__version__)"
