"""C06 — every call carries an x-goog-request-params header that follows AIP-4222."""
import random
import urllib.parse

from vlib import apigen, pipeline, rdm, refs

ID = "C06"
LEVEL = "exploration"
RULE = ("cases = seeded APIs with explicit google.api.routing rules of every form in the quantifier and implicit HTTP-derived "
        "headers; every method is called through sync gRPC, asyncio gRPC and REST with values that match, do not match (wrong "
        "literal, extra segments, missing segments), are empty, or need escaping; the x-goog-request-params header recorded at the "
        "server (gRPC invocation metadata / HTTP headers) is parsed and compared with a segment-wise AIP-4222 reference; distinct = "
        "distinct (routing form, value-class tuple, transport) combinations that held")
ASSUMPTIONS = ["boundary inputs on which AIP-4222's wording leaves room ('a/**' against 'a' or 'a/') are not used", "non-string path "
               "variables limited to integers"]
CASE_TIMEOUT = 400
PARALLEL = 12
TRIALS = 10
HDR = "x-goog-request-params"

ESCAPY = ["a b", "x&y=z", "50%", "p+q", "ü☃", "q?r#s", "semi;colon", "UPPER.lower~1_2-3"]
PLAIN = ["a", "b1", "x-y", "Z9"]


def floors(tier):
    k = 1 if tier == "quick" else 8
    return {"headers_judged": 2500 * k, "explicit_calls": 1200 * k, "implicit_calls": 600 * k, "expect_absent": 200 * k,
            "class:nonmatch": 300 * k, "class:escape": 300 * k, "class:empty": 200 * k, "class:extra": 100 * k, "overridden_key": 30 * k,
            "transport:rest": 700 * k, "later_page_headers_judged": 400 * k, "caller_metadata_lists_checked": 20 * k}


def plan(seed, tier):
    n = 10 if tier == "quick" else 100
    cases = [{"id": f"route-{seed}-{i}", "seed": seed * 100003 + i} for i in range(n)]
    # the whole API moved into a proto sub-package (next to a sibling sub-package): nothing about the property changes
    cases += [{"id": f"route-sub-{seed}-{i}", "seed": seed * 100003 + 6000 + i, "subpkg": True} for i in range(2 if tier == "quick" else 10)]
    return cases


def build_api(case):
    rng = random.Random(case["seed"])
    api = apigen.routing_api(rng, "g%d" % (case["seed"] % 100000))
    return apigen.into_subpackage(api) if case.get("subpkg") else api


def sample_tmpl(rng, tmpl, escape=False):
    segs, _ = refs._routing_segments(tmpl)
    out = []
    for pat, _c in segs:
        if pat == "*":
            out.append(rng.choice(ESCAPY if escape else PLAIN))
        elif pat == "**":
            out.extend(rng.choice(ESCAPY if escape and rng.random() < 0.5 else PLAIN) for _ in range(rng.randint(1, 3)))
        else:
            out.append(pat)
    return "/".join(out)


def value_for(rng, tmpls, cls):
    """A value of class cls for a field routed by the given templates."""
    t = rng.choice(tmpls)
    if cls == "empty":
        return ""
    if not t:
        return {"match": rng.choice(PLAIN + ["projects/p/x/y"]), "escape": rng.choice(ESCAPY), "nonmatch": rng.choice(PLAIN),
                "extra": rng.choice(PLAIN) + "/more", "short": rng.choice(PLAIN)}[cls]
    if cls == "match":
        return sample_tmpl(rng, t)
    if cls == "escape":
        return sample_tmpl(rng, t, escape=True)
    if cls == "extra":
        return sample_tmpl(rng, t) + "/extra/" + rng.choice(PLAIN)
    if cls == "short":
        v = sample_tmpl(rng, t).split("/")
        return "/".join(v[:max(1, len(v) - 2)])
    # nonmatch: corrupt a literal (or prepend one)
    segs, _ = refs._routing_segments(t)
    v = sample_tmpl(rng, t).split("/")
    lits = [i for i, (p, _c) in enumerate(segs) if p not in ("*", "**")]
    if lits and len(v) > max(lits):
        i = rng.choice(lits)
        v[i] = v[i] + "x"
        return "/".join(v)
    return "wrongprefix/" + "/".join(v) if "**" not in t.split("=")[-1][:2] else ""


def run_case(case):
    scratch = pipeline.case_scratch("c06")
    api = build_api(case)
    req, g, lib = pipeline.build_and_generate(api, scratch)
    if not g.ok:
        return pipeline.gen_failed_result(g, api)
    model = rdm.Model(req)
    rng = random.Random(case["seed"] ^ 0xC06)
    calls = []
    for p, s, m in refs.target_methods(req):
        params = refs.routing_params(m)
        bindings = refs.http_bindings(m)
        for t in range(TRIALS):
            msg = model.new(m.input_type)
            msg.anchor = "anchors/" + rng.choice(PLAIN)
            msg.note = rng.choice(["", "n"])
            classes = []
            if params is not None:
                by_field = {}
                for fld, tmpl in params:
                    by_field.setdefault(fld, []).append(tmpl)
                for fld, tmpls in by_field.items():
                    cls = rng.choice(["match", "match", "escape", "nonmatch", "empty", "extra", "short"])
                    refs.set_path(msg, fld, value_for(rng, tmpls, cls))
                    classes.append(cls)
                exp = refs.routing_expected(msg, params)
                kind = "explicit"
                rest_ok = bool(bindings)
                if m.name == "Both":
                    msg.name = "things/" + rng.choice(PLAIN)
                if m.name == "Disabled":        # empty annotation: the HTTP path variables are set and must NOT produce a header
                    msg.name = "things/" + rng.choice(PLAIN)
                    msg.table_name = rng.choice(PLAIN)
            elif bindings:
                kind = "implicit"
                verb, tmpl, body = bindings[0]
                cls = rng.choice(["match", "escape", "match"])
                for var, pat in refs.path_vars(tmpl):
                    fd = msg.DESCRIPTOR
                    cur = msg
                    parts = var.split(".")
                    for pp in parts[:-1]:
                        cur = getattr(cur, pp)
                    leaf = cur.DESCRIPTOR.fields_by_name[parts[-1]]
                    if leaf.type == leaf.TYPE_STRING:
                        refs.set_path(msg, var, sample_tmpl(rng, pat, escape=(cls == "escape")))
                    else:
                        refs.set_path(msg, var, rng.choice([1, 42, 9007199254740993]))
                classes.append(cls)
                # a `custom` verb is not transcoded by the REST transport (the method is not offered there): judged on gRPC / asyncio
                rest_ok = verb in ("GET", "PUT", "POST", "DELETE", "PATCH")
                if m.name == "PrimaryPlain" and t % 2:
                    # values that would satisfy an additional binding must still produce no header
                    msg.name = "projects/" + rng.choice(PLAIN)
                    classes = ["additional-binding-matches"]
                    rest_ok = False         # REST would legitimately pick that binding's URL; the header rule is judged on gRPC
                if t == TRIALS - 1:
                    # gRPC-only trial with empty / unset variables (REST could not transcode it)
                    for var, pat in refs.path_vars(tmpl):
                        parts = var.split(".")
                        if len(parts) == 1:
                            msg.ClearField(var)
                    classes = ["empty"]
                    rest_ok = False
                exp = refs.implicit_expected(msg, m)
            else:
                kind, exp, rest_ok, classes = "none", {}, False, ["none"]
            pages = None
            if m.name in api.info.get("paged", []):
                # a listing of three pages: the header must accompany every fetch, not only the first
                pages = []
                for k, tok in enumerate(["t1", "t2", ""]):
                    pm = model.new(m.output_type)
                    pm.items.extend([f"i{k}a", f"i{k}b"])
                    pm.next_page_token = tok
                    pages.append({"pb": rdm.b64(pm.SerializeToString()),
                                  "json": {"items": [f"i{k}a", f"i{k}b"], "nextPageToken": tok}})
                classes = classes + ["paged"]
            calls.append({"service": s.name, "rpc": m.name, "method": rdm.py_method(m.name), "req_type": m.input_type.lstrip("."),
                          "pages": pages, "path": f"/{p.package}.{s.name}/{m.name}",
                          "request": rdm.b64(msg.SerializeToString()), "expected": exp, "kind": kind, "classes": classes,
                          "rest": rest_ok, "form": (api.info.get("explicit", {}).get(m.name) or api.info.get("implicit", {}).get(m.name) or m.name)})
    script = {"root_pkg": apigen.runner_root(api), "calls": calls}
    ev, rc, err = pipeline.run_runner("checks.c06", script, lib, timeout=300)
    if ev is None or "runner_crash" in ev or "library_import_error" in ev:
        return pipeline.runner_failed_result(ev, rc, err, api)
    viol, counters, sigs = [], {}, set()

    def bump(k, n=1):
        counters[k] = counters.get(k, 0) + n

    sample = None
    for tr_, after in (ev.get("caller_metadata_after") or {}).items():
        bump("caller_metadata_lists_checked")
        if after != [["x-verif-caller", tr_]]:
            viol.append({"clause": "caller-metadata-mutated", "detail": {"transport": tr_, "list_after_the_run": after[:6], "entries": len(after)},
                         "mech": {"transport": tr_}})
    for call, r in zip(calls, ev["results"]):
        exp = call["expected"]
        for tr in ("grpc", "aio", "rest"):
            if tr == "rest" and not call["rest"]:
                continue
            o = r[tr]
            bump("headers_judged")
            bump(call["kind"] + "_calls")
            bump("transport:" + tr)
            for c in call["classes"]:
                bump("class:" + c)
            mech = {"transport": tr, "kind": call["kind"], "form": call["form"], "classes": sorted(set(call["classes"]))}
            if o.get("error"):
                viol.append({"clause": "client-raised", "detail": {"rpc": call["rpc"], "transport": tr, "error": o["error"]}, "mech": mech})
                continue
            hv = o["headers"]
            if call.get("pages"):
                # one verdict per fetch of the pager
                per = o.get("per_call") or []
                bump("paged_fetches", len(per))
                if len(per) != len(call["pages"]) or o.get("items") != 2 * len(call["pages"]):
                    viol.append({"clause": "paged-listing-incomplete", "detail": {"rpc": call["rpc"], "transport": tr, "fetches": len(per),
                                                                                   "items": o.get("items")}, "mech": mech})
                    continue
                bad = None
                for k, vals in enumerate(per):
                    gotk = dict(urllib.parse.parse_qsl(vals[0], keep_blank_values=True)) if len(vals) == 1 else ({} if not vals else None)
                    if gotk != exp:
                        bad = {"fetch": k, "got": gotk, "raw": vals, "expected": exp}
                        break
                    if k:
                        bump("later_page_headers_judged")
                if bad:
                    viol.append({"clause": "header-differs-on-later-page" if bad["fetch"] else "header-differs",
                                 "detail": {"rpc": call["rpc"], "transport": tr, "form": call["form"], "classes": call["classes"], **bad},
                                 "mech": mech})
                else:
                    sigs.add(f"{call['form']}|{','.join(call['classes'])}|{tr}")
                    if not exp:
                        bump("expect_absent")
                continue
            if len(hv) > 1:
                viol.append({"clause": "header-repeated", "detail": {"rpc": call["rpc"], "transport": tr, "values": hv}, "mech": mech})
                continue
            if not exp:
                bump("expect_absent")
            if not hv:
                got = {}
            else:
                raw = hv[0]
                if not raw.isascii():
                    viol.append({"clause": "header-not-ascii", "detail": {"rpc": call["rpc"], "raw": raw}, "mech": mech})
                pairs = urllib.parse.parse_qsl(raw, keep_blank_values=True, strict_parsing=False)
                got = dict(pairs)
                if len(got) != len(pairs):
                    viol.append({"clause": "header-key-repeated", "detail": {"rpc": call["rpc"], "raw": raw}, "mech": mech})
                if call["kind"] == "explicit" and raw == "":
                    viol.append({"clause": "empty-header-sent", "detail": {"rpc": call["rpc"], "transport": tr}, "mech": mech})
            if got != exp:
                viol.append({"clause": "header-differs", "detail": {"rpc": call["rpc"], "transport": tr, "form": call["form"],
                                                                     "classes": call["classes"], "got": got, "expected": exp,
                                                                     "raw": hv[:1]}, "mech": mech})
            else:
                sigs.add(f"{call['form']}|{','.join(call['classes'])}|{tr}")
                if sample is None and exp and call["kind"] == "explicit":
                    sample = {"rpc": call["rpc"], "form": call["form"], "transport": tr, "header": hv, "expected": exp}
        if call["kind"] == "explicit":
            prm = None
    # count overridden keys (several parameters contributed under one key)
    for p, s, m in refs.target_methods(req):
        params = refs.routing_params(m)
        if not params:
            continue
        for call in calls:
            if call["rpc"] != m.name:
                continue
            msg = model.parse(call["req_type"], rdm.unb64(call["request"]))
            keys = []
            for fld, tmpl in params:
                v = refs.get_path(msg, fld)
                if not v:
                    continue
                k, cap = (fld, v) if not tmpl else refs.routing_capture(tmpl, v)
                if cap:
                    keys.append(k)
            if len(keys) != len(set(keys)):
                bump("overridden_key")
    return {"verdict": "violated" if viol else "held", "violations": pipeline.diverse(viol, 40), "evaluations": counters.get("headers_judged", 0),
            "nontrivial_sigs": sorted(sigs), "counters": counters, "sample": sample or {}}


# ---------------------------------------------------------------------------

def in_runner(script):
    import asyncio
    from vlib import rt
    lib = rt.Lib(script["root_pkg"])
    srv = rt.GrpcServer()
    http = rt.HttpServer()
    results = [{"grpc": None, "aio": None, "rest": None} for _ in script["calls"]]
    gc, rc = {}, {}
    # the caller's own metadata: ONE mutable list per transport, handed to every call of the run (an application constant);
    # the client must neither change it nor let one call's routing header travel with the next
    caller_md = {k: [("x-verif-caller", k)] for k in ("grpc", "aio", "rest")}

    def md_values(evs):
        out = []
        for e in evs:
            out += [v for k, v in e["metadata"] if k.lower() == HDR]
        return out

    for i, call in enumerate(script["calls"]):
        svc = call["service"]
        if svc not in gc:
            gc[svc] = lib.grpc_client(svc, srv.target)
            rc[svc] = lib.rest_client(svc, http.host)
        req = lib.mk(call["req_type"], rt.unb64(call["request"]))
        mark = srv.mark()
        o = {}
        try:
            if call.get("pages"):
                srv.script(call["path"], [{"payloads": [pg["pb"]]} for pg in call["pages"]])
                o["items"] = len(list(getattr(gc[svc], call["method"])(request=req, metadata=caller_md["grpc"])))
            else:
                getattr(gc[svc], call["method"])(request=req, metadata=caller_md["grpc"])
        except BaseException as e:  # noqa
            o["error"] = rt.exc_info(e)
        o["headers"] = md_values(srv.since(mark))
        o["per_call"] = [md_values([e]) for e in srv.since(mark)]
        results[i]["grpc"] = o
        if call["rest"]:
            mark = http.mark()
            o = {}
            try:
                if call.get("pages"):
                    import json as _json
                    http.script([{"body": _json.dumps(pg["json"])} for pg in call["pages"]])
                    o["items"] = len(list(getattr(rc[svc], call["method"])(request=lib.mk(call["req_type"], rt.unb64(call["request"])), metadata=caller_md["rest"])))
                else:
                    getattr(rc[svc], call["method"])(request=lib.mk(call["req_type"], rt.unb64(call["request"])), metadata=caller_md["rest"])
            except BaseException as e:  # noqa
                o["error"] = rt.exc_info(e)
            hs = []
            for e in http.since(mark):
                hs += [v for k, v in e["headers"] if k.lower() == HDR]
            o["headers"] = hs
            o["per_call"] = [[v for k, v in e["headers"] if k.lower() == HDR] for e in http.since(mark)]
            results[i]["rest"] = o

    async def amain():
        ac = {}
        for i, call in enumerate(script["calls"]):
            svc = call["service"]
            if svc not in ac:
                ac[svc] = lib.aio_client(svc, srv.target)
            mark = srv.mark()
            o = {}
            try:
                if call.get("pages"):
                    srv.script(call["path"], [{"payloads": [pg["pb"]]} for pg in call["pages"]])
                    pager = await getattr(ac[svc], call["method"])(request=lib.mk(call["req_type"], rt.unb64(call["request"])), metadata=caller_md["aio"])
                    n = 0
                    async for _ in pager:
                        n += 1
                    o["items"] = n
                else:
                    await getattr(ac[svc], call["method"])(request=lib.mk(call["req_type"], rt.unb64(call["request"])), metadata=caller_md["aio"])
            except BaseException as e:  # noqa
                o["error"] = rt.exc_info(e)
            o["headers"] = md_values(srv.since(mark))
            o["per_call"] = [md_values([e]) for e in srv.since(mark)]
            results[i]["aio"] = o

    asyncio.run(amain())
    srv.stop()
    return {"results": results, "caller_metadata_after": {k: [list(x) for x in v] for k, v in caller_md.items()}}
