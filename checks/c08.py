"""C08 — long-running methods return futures typed by google.longrunning.operation_info."""
import random

from google.protobuf import any_pb2

from vlib import apigen, pipeline, rdm, refs

ID = "C08"
LEVEL = "exploration"
RULE = ("cases = seeded APIs spanning the operation_info type-resolution matrix ({relative, fully-qualified} x {same file, other "
        "target file imported, other target file not imported (incl. files named operation/operation_async/pagers), Empty}) plus "
        "requests with an empty response/metadata type that must be rejected; each LRO method is called through sync and asyncio "
        "clients against scripted GetOperation histories not-done^k (k=0..3) then done(response|error), and — in cases whose service YAML "
        "places google.longrunning.Operations under a per-case URL prefix, listed as a mixin or not — through the REST client against a "
        "loopback HTTP server whose polls must follow the YAML rule; the judge checks the future "
        "type, where and on which channel polls arrive, the GetOperation request, and type + content of result()/metadata; "
        "distinct = distinct (response location, metadata location, qualification, history, client kind) that held")
ASSUMPTIONS = ["polling sleeps go through a virtual clock patched into google.api_core.retry", "REST long-running operations: the synchronous REST transport, and (with rest_async_io_enabled) the asyncio client on the rest_asyncio transport",
               "proto sub-packages appear only as sibling sub-packages (service package + one sibling); root files next to sub-packages do not import on the unchanged tree (DESIGN 10.2)"]
CASE_TIMEOUT = 400
PARALLEL = 12
CODES = {3: "INVALID_ARGUMENT", 5: "NOT_FOUND", 7: "PERMISSION_DENIED", 9: "FAILED_PRECONDITION", 13: "INTERNAL", 14: "UNAVAILABLE"}


def floors(tier):
    k = 1 if tier == "quick" else 8
    return {"lro_histories": 300 * k, "polls_observed": 300 * k, "results_typed": 150 * k, "errors_mapped": 60 * k, "rejections_checked": (4 if tier == "quick" else 20),
            "raw_operation_calls": 16 * k, "resp:far": 30 * k, "meta:far": 30 * k, "resp:empty": 20 * k, "client:aio": 120 * k, "rest_lro_histories": 40 * k, "meta:sibling": 10 * k, "async_rest_lro_histories": 20 * k}


def plan(seed, tier):
    n = 10 if tier == "quick" else 90
    cases = [{"id": f"lro-{seed}-{i}", "seed": seed * 100003 + i, "broken": None} for i in range(n)]
    cases += [{"id": f"lro-rest-{seed}-{i}", "seed": seed * 100003 + 3000 + i, "broken": None, "rest": ["unlisted", "listed", "norules"][i % 3], "async_rest": (i // 3) % 2 == 1} for i in range(max(6, n // 3))]
    # the service in a proto sub-package next to a sibling sub-package (relative names are relative to the method's package)
    cases += [{"id": f"lro-sub-{seed}-{i}", "seed": seed * 100003 + 5000 + i, "broken": None, "subpkg": True} for i in range(max(3, n // 4))]
    for i, b in enumerate(["no_response", "no_metadata", "both_empty"] * (2 if tier == "quick" else 8)):
        cases.append({"id": f"lro-bad-{seed}-{i}", "seed": seed * 100003 + 7000 + i, "broken": b})
    return cases


def build_api(case):
    rng = random.Random(case["seed"])
    return apigen.lro_api(rng, "j%d" % (case["seed"] % 100000), broken=case["broken"], rest=case.get("rest") or False,
                          subpkg=bool(case.get("subpkg")), async_rest=bool(case.get("async_rest")))


def resolve(pkg, name):
    """operation_info type names are resolved relative to the method's package."""
    return name if "." in name else pkg + "." + name      # a name without a dot is relative (google.longrunning.OperationInfo)


def op_json(op, mtype, rtype, model):
    """JSON of an Operation whose Any payloads hold dynamic messages (the default pool of this process does not know them)."""
    import json
    from google.protobuf import json_format
    d = {"name": op.name, "done": bool(op.done)}
    for fld, t in (("metadata", mtype), ("response", rtype)):
        a = getattr(op, fld)
        if a.type_url:
            m = model.parse(t, a.value)
            d[fld] = {"@type": a.type_url, **json_format.MessageToDict(m, preserving_proto_field_name=False)}
    if op.HasField("error"):
        d["error"] = {"code": op.error.code, "message": op.error.message}
    return json.dumps(d)


def run_case(case):
    scratch = pipeline.case_scratch("c08")
    api = build_api(case)
    req, g, lib = pipeline.build_and_generate(api, scratch)
    counters = {}
    if case["broken"]:
        counters["rejections_checked"] = 1
        viol = []
        if g.ok:
            viol.append({"clause": "bad-operation-info-accepted", "detail": {"broken": case["broken"]}, "mech": {"broken": case["broken"]}})
        else:
            if g.exc_type != "TypeError" or "Broken" not in (g.exc_msg or ""):
                viol.append({"clause": "rejection-not-a-typeerror-naming-the-rpc", "detail": g.failure(), "mech": {"broken": case["broken"]}})
        return {"verdict": "violated" if viol else "held", "violations": viol, "evaluations": 1, "counters": counters,
                "nontrivial_sigs": [] if viol else [f"rejected|{case['broken']}"],
                "sample": {"broken": case["broken"], "exit": g.rc, "error": f"{g.exc_type}: {g.exc_msg}"[:200]}}
    if not g.ok:
        return pipeline.gen_failed_result(g, api)
    model = rdm.Model(req)
    rng = random.Random(case["seed"] ^ 0xC08)
    pkg = api.info["pkg"]
    calls = []
    for p, s, m in refs.target_methods(req):
        info = refs.lro_info(m)
        base = {"service": s.name, "full_service": f"{p.package}.{s.name}", "rpc": m.name, "method": rdm.py_method(m.name),
                "req_type": m.input_type.lstrip(".")}
        x = model.new(m.input_type)
        x.name = "jobs/" + rng.choice(["a", "b"])
        if m.output_type == ".google.longrunning.Operation" and not info:
            for kind in ("grpc", "aio"):
                op = model.new("google.longrunning.Operation")
                op.name = "operations/raw-%d" % rng.randint(1, 999)
                calls.append({**base, "kind": "raw", "client": kind, "request": rdm.b64(x.SerializeToString()),
                              "first": rdm.b64(op.SerializeToString())})
            continue
        if not info:
            continue
        rtype, mtype = resolve(p.package, info[0]), resolve(p.package, info[1])      # relative to the METHOD's package
        kinds = ("grpc", "aio")
        if api.info.get("rest_lro"):
            kinds = ("grpc", "aio", "rest", "arest") if api.info["rest_lro"].get("async") else ("grpc", "aio", "rest")
        for kind in kinds:
            for k in rng.sample([0, 1, 2, 3], 2):
                for outcome in ("response", "error"):
                    opname = "projects/p1/operations/op-%d" % rng.randint(1, 10 ** 6)
                    if (api.info.get("rest_lro") or {}).get("additional") and rng.random() < 0.5:
                        # an operation name that only an ADDITIONAL binding of the YAML's GetOperation rule matches
                        opname = rng.choice(["organizations/o1/operations/op-%d", "folders/f1/locations/l1/operations/op-%d"]) % rng.randint(1, 10 ** 6)
                        extra_tag = "poll-through-additional-binding"
                    meta = model.new(mtype)
                    rdm.fill(rng, meta, max_depth=1)
                    first = model.new("google.longrunning.Operation")
                    first.name = opname
                    first.metadata.type_url = "type.googleapis.com/" + mtype
                    first.metadata.value = meta.SerializeToString()
                    polls = []
                    for i in range(k):
                        o = model.new("google.longrunning.Operation")
                        o.CopyFrom(first)
                        polls.append(rdm.b64(o.SerializeToString()))
                    last = model.new("google.longrunning.Operation")
                    last.CopyFrom(first)
                    last.done = True
                    meta2 = model.new(mtype)
                    rdm.fill(rng, meta2, max_depth=1)
                    last.metadata.value = meta2.SerializeToString()
                    res = model.new(rtype)
                    code = None
                    if outcome == "response":
                        rdm.fill(rng, res, max_depth=1)
                        last.response.type_url = "type.googleapis.com/" + rtype
                        last.response.value = res.SerializeToString()
                    else:
                        code = rng.choice(list(CODES))
                        last.error.code = code
                        last.error.message = "scripted failure"
                    if k == 0:
                        first_reply = last if rng.random() < 0.5 else first
                    else:
                        first_reply = first
                    extra = {}
                    if kind in ("rest", "arest"):
                        extra = {"first_json": op_json(first_reply, mtype, rtype, model), "polls_json": [op_json(model.parse("google.longrunning.Operation", rdm.unb64(p_)), mtype, rtype, model) for p_ in polls] + [op_json(last, mtype, rtype, model)],
                                 "poll_prefix": api.info["rest_lro"]["prefix"], "ops_in_apis": api.info["rest_lro"]["operations_listed_under_apis"]}
                    calls.append({**base, **extra, "kind": "lro", "client": kind, "request": rdm.b64(x.SerializeToString()),
                                  "first": rdm.b64(first_reply.SerializeToString()),
                                  "polls": polls + [rdm.b64(last.SerializeToString())], "k": k, "outcome": outcome, "opname": opname,
                                  "rtype": rtype, "mtype": mtype, "expected_result": rdm.b64(res.SerializeToString()),
                                  "expected_meta": rdm.b64((meta2 if first_reply is not last or True else meta).SerializeToString()),
                                  "first_done": first_reply is last, "code": code, "where": api.info["lro"][m.name]})
    script = {"root_pkg": apigen.lib_root(api.info, api.options) + ("." + api.info["sub"] if api.info.get("sub") else ""), "calls": calls}
    ev, rc, err = pipeline.run_runner("checks.c08", script, lib, timeout=300)
    if ev is None or "runner_crash" in ev or "library_import_error" in ev:
        return pipeline.runner_failed_result(ev, rc, err, api)
    viol, sigs = [], set()

    def bump(k, n=1):
        counters[k] = counters.get(k, 0) + n

    sample = None
    for call, r in zip(calls, ev["results"]):
        v = judge(model, call, r, ev["proxy_log"].get(call["client"], []), bump)
        for x in v:
            x["mech"] = {"client": call["client"], "kind": call["kind"], "where": call.get("where"), "outcome": call.get("outcome")}
            x["detail"] = {"rpc": call["rpc"], "client": call["client"], "where": call.get("where"), "k": call.get("k"), "why": x["detail"]}
        viol.extend(v)
        if not v and call["kind"] == "lro":
            w = call["where"]
            sigs.add(f"{w['response']}|{w['metadata']}|{w['qualified']}|k={call['k']}|{call['outcome']}|{call['client']}")
            if sample is None and call["k"] >= 2 and call["outcome"] == "response":
                sample = {"rpc": call["rpc"], "client": call["client"], "where": w, "history": f"not-done^{call['k']} done(response)",
                          "poll_paths": [e["method"] for e in r["poll_events"]][:5], "result_type": r.get("result_type")}
    return {"verdict": "violated" if viol else "held", "violations": pipeline.diverse(viol, 40), "evaluations": len(calls),
            "nontrivial_sigs": sorted(sigs), "counters": counters, "sample": sample or {}}


def judge(model, call, r, proxy_log, bump):
    v = []

    def bad(clause, detail):
        v.append({"clause": clause, "detail": detail})

    if call["kind"] == "raw":
        bump("raw_operation_calls")
        if r.get("error"):
            bad("client-raised", r["error"])
        elif r.get("returned_type") != "google.longrunning.Operation":
            bad("unannotated-method-does-not-return-raw-operation", r.get("returned_type"))
        elif r.get("returned") != call["first"] and model.parse("google.longrunning.Operation", rdm.unb64(r["returned"])) != \
                model.parse("google.longrunning.Operation", rdm.unb64(call["first"])):
            bad("raw-operation-content", "differs")
        return v
    bump("lro_histories")
    bump("client:" + call["client"])
    bump("resp:" + call["where"]["response"])
    bump("meta:" + call["where"]["metadata"])
    if r.get("call_error"):
        bad("client-raised", r["call_error"])
        return v
    if not r.get("is_future"):
        bad("not-an-operation-future", r.get("returned_type"))
        return v
    polls = r["poll_events"]
    need = 0 if call["first_done"] else call["k"] + 1
    bump("polls_observed", len(polls))
    if call["client"] in ("rest", "arest"):
        bump("rest_lro_histories")
        if call["client"] == "arest":
            bump("async_rest_lro_histories")
        want_path = call["poll_prefix"] + "/" + call["opname"]
        for e in polls:
            if e["verb"] != "GET" or e["path"] != want_path:
                bad("rest-poll-does-not-follow-the-yaml-rule", {"seen": f"{e['verb']} {e['path']}", "rule": f"GET {want_path}",
                                                                 "operations_listed_under_apis": call["ops_in_apis"]})
                return v
        polls = []
        need = 0 if call["first_done"] else call["k"] + 1
        if len(r["poll_events"]) != need:
            bad("poll-count", f"{len(r['poll_events'])} polls over REST for history not-done^{call['k']}; expected {need}")
        need = 0
    for e in polls:
        if e["method"] != "/google.longrunning.Operations/GetOperation":
            bad("poll-path", e["method"])
            return v
        gr = model.parse("google.longrunning.GetOperationRequest", rdm.unb64(e["requests"][0]))
        if gr.name != call["opname"]:
            bad("poll-operation-name", f"{gr.name!r} != {call['opname']!r}")
            return v
    if len(polls) != need:
        bad("poll-count", f"{len(polls)} GetOperation calls for history not-done^{call['k']} (first reply done={call['first_done']}); expected {need}")
    if need and not any(path == "/google.longrunning.Operations/GetOperation" for _a, path in proxy_log):
        bad("polls-bypass-the-client-channel", "the channel handed to the transport never saw a GetOperation multicallable")
    if call["outcome"] == "response":
        bump("results_typed")
        if r.get("result_error"):
            bad("result-raised", r["result_error"])
            return v
        if r["result_type"] != call["rtype"]:
            bad("result-type", f"{r['result_type']} != annotated {call['rtype']}")
        elif model.parse(call["rtype"], rdm.unb64(r["result"] or "")) != model.parse(call["rtype"], rdm.unb64(call["expected_result"])):
            bad("result-content", "differs from the packed response")
        if r.get("metadata_type") != call["mtype"]:
            bad("metadata-type", f"{r.get('metadata_type')} != annotated {call['mtype']} ({r.get('metadata_error')})")
        elif model.parse(call["mtype"], rdm.unb64(r["metadata"] or "")) != model.parse(call["mtype"], rdm.unb64(call["expected_meta"])):
            bad("metadata-content", "differs from the packed metadata of the last operation")
    else:
        bump("errors_mapped")
        e = r.get("result_error")
        if not e:
            bad("error-not-raised", f"result() returned {r.get('result_type')}")
        elif "GoogleAPICallError" not in e.get("mro", []) and e.get("type") != "GoogleAPICallError":
            # which subclass is raised is google-api-core's choice (sync: from_grpc_status, asyncio: the base class)
            bad("error-mapping", f"{e} for status {CODES[call['code']]}")
    return v


# ---------------------------------------------------------------------------

def in_runner(script):
    import asyncio
    from vlib import rt
    vt, vr = rt.install_virtual_time()
    lib = rt.Lib(script["root_pkg"])
    srv = rt.GrpcServer()
    logs = {"grpc": [], "aio": []}
    results = [None] * len(script["calls"])
    GET = "/google.longrunning.Operations/GetOperation"

    def setup(call):
        srv.script("/%s/%s" % (call["full_service"], call["rpc"]), [{"payloads": [call["first"]]}])
        if call["kind"] == "lro":
            srv.script(GET, [{"payloads": [p]} for p in call["polls"]])

    def poll_events(mark):
        return [e for e in srv.since(mark) if e["method"] != "/%s/%s" % ("x", "y") and "Operations/" in e["method"]]

    clients = {}
    for i, call in enumerate(script["calls"]):
        if call["client"] != "grpc":
            continue
        svc = call["service"]
        if svc not in clients:
            clients[svc] = lib.grpc_client(svc, srv.target, logs["grpc"])
        c = clients[svc]
        setup(call)
        mark = srv.mark()
        o = {}
        try:
            ret = getattr(c, call["method"])(request=lib.mk(call["req_type"], rt.unb64(call["request"])))
            if call["kind"] == "raw":
                o["returned_type"], o["returned"] = rt.ser(ret)
            else:
                o["is_future"] = hasattr(ret, "result") and hasattr(ret, "operation") and hasattr(ret, "metadata")
                o["returned_type"] = type(ret).__module__ + "." + type(ret).__name__
                if o["is_future"]:
                    try:
                        res = ret.result(timeout=600)
                        o["result_type"], o["result"] = rt.ser(res) if res is not None else (None, None)
                    except BaseException as e:  # noqa
                        o["result_error"] = rt.exc_info(e)
                    try:
                        md = ret.metadata
                        o["metadata_type"], o["metadata"] = rt.ser(md)
                    except BaseException as e:  # noqa
                        o["metadata_error"] = rt.exc_info(e)
        except BaseException as e:  # noqa
            o["call_error"] = rt.exc_info(e)
        o["poll_events"] = poll_events(mark)
        srv.script(GET, [])
        results[i] = o

    http = None
    rclients = {}
    for i, call in enumerate(script["calls"]):
        if call["client"] != "rest":
            continue
        if http is None:
            http = rt.HttpServer()
        svc = call["service"]
        if svc not in rclients:
            rclients[svc] = lib.rest_client(svc, http.host)
        http.script([{"status": 200, "body": call["first_json"]}] + [{"status": 200, "body": pj} for pj in call["polls_json"]])
        mark = http.mark()
        o = {}
        try:
            ret = getattr(rclients[svc], call["method"])(request=lib.mk(call["req_type"], rt.unb64(call["request"])))
            o["is_future"] = hasattr(ret, "result") and hasattr(ret, "operation") and hasattr(ret, "metadata")
            o["returned_type"] = type(ret).__module__ + "." + type(ret).__name__
            if o["is_future"]:
                try:
                    res = ret.result(timeout=600)
                    o["result_type"], o["result"] = rt.ser(res) if res is not None else (None, None)
                except BaseException as e:  # noqa
                    o["result_error"] = rt.exc_info(e)
                try:
                    md = ret.metadata
                    o["metadata_type"], o["metadata"] = rt.ser(md)
                except BaseException as e:  # noqa
                    o["metadata_error"] = rt.exc_info(e)
        except BaseException as e:  # noqa
            o["call_error"] = rt.exc_info(e)
        o["poll_events"] = http.since(mark)[1:]
        http.script([])
        results[i] = o

    async def amain():
        ac = {}
        arc = {}
        for i, call in enumerate(script["calls"]):
            if call["client"] == "arest":
                # asyncio client on the experimental rest_asyncio transport
                nonlocal http
                if http is None:
                    http = rt.HttpServer()
                svc = call["service"]
                if svc not in arc:
                    from google.auth.aio.credentials import AnonymousCredentials as AsyncAnonymous
                    C = lib.client_cls(svc, asyn=True)
                    T = C.get_transport_class("rest_asyncio")
                    arc[svc] = C(transport=T(host=http.host, url_scheme="http", credentials=AsyncAnonymous()))
                http.script([{"status": 200, "body": call["first_json"]}] + [{"status": 200, "body": pj} for pj in call["polls_json"]])
                mark = http.mark()
                o = {}
                try:
                    ret = await getattr(arc[svc], call["method"])(request=lib.mk(call["req_type"], rt.unb64(call["request"])))
                    o["is_future"] = hasattr(ret, "result") and hasattr(ret, "operation") and hasattr(ret, "metadata")
                    o["returned_type"] = type(ret).__module__ + "." + type(ret).__name__
                    if o["is_future"]:
                        try:
                            res = await ret.result(timeout=600)
                            o["result_type"], o["result"] = rt.ser(res) if res is not None else (None, None)
                        except BaseException as e:  # noqa
                            o["result_error"] = rt.exc_info(e)
                        try:
                            md = ret.metadata
                            o["metadata_type"], o["metadata"] = rt.ser(md)
                        except BaseException as e:  # noqa
                            o["metadata_error"] = rt.exc_info(e)
                except BaseException as e:  # noqa
                    o["call_error"] = rt.exc_info(e)
                o["poll_events"] = http.since(mark)[1:]
                http.script([])
                results[i] = o
                continue
            if call["client"] != "aio":
                continue
            svc = call["service"]
            if svc not in ac:
                ac[svc] = lib.aio_client(svc, srv.target, logs["aio"])
            setup(call)
            mark = srv.mark()
            o = {}
            try:
                ret = await getattr(ac[svc], call["method"])(request=lib.mk(call["req_type"], rt.unb64(call["request"])))
                if call["kind"] == "raw":
                    o["returned_type"], o["returned"] = rt.ser(ret)
                else:
                    o["is_future"] = hasattr(ret, "result") and hasattr(ret, "operation") and hasattr(ret, "metadata")
                    o["returned_type"] = type(ret).__module__ + "." + type(ret).__name__
                    if o["is_future"]:
                        try:
                            res = await ret.result(timeout=600)
                            o["result_type"], o["result"] = rt.ser(res) if res is not None else (None, None)
                        except BaseException as e:  # noqa
                            o["result_error"] = rt.exc_info(e)
                        try:
                            md = ret.metadata
                            o["metadata_type"], o["metadata"] = rt.ser(md)
                        except BaseException as e:  # noqa
                            o["metadata_error"] = rt.exc_info(e)
            except BaseException as e:  # noqa
                o["call_error"] = rt.exc_info(e)
            o["poll_events"] = poll_events(mark)
            srv.script(GET, [])
            results[i] = o

    asyncio.run(amain())
    srv.stop()
    return {"results": results, "proxy_log": logs, "virtual_sleeps": len(vt.sleeps)}
