"""C03 — gRPC calls reach the right RPC with the caller's request and return the reply."""
import random

from google.protobuf.descriptor import FieldDescriptor as FD

from vlib import apigen, pipeline, rdm, refs

ID = "C03"
LEVEL = "exploration"
RULE = ("cases = seeded API descriptions (all four arities, void, LRO, paged, foreign pb2 request/response types); every RPC is "
        "invoked through the emitted sync and asyncio clients with the request as message / dict / omitted against a loopback gRPC "
        "server that records method path, raw request bytes and replies from a script; a channel proxy records the arity requested; "
        "evaluations = client invocations judged; distinct = distinct (arity, form, client kind, request-origin, response-kind) "
        "combinations observed with a non-empty request valuation")
ASSUMPTIONS = ["grpcio loopback transport is faithful", "RPC/method names follow the style guide (snake_case mapping unambiguous)",
               "dict form is exercised only for valuations without Struct/Value/ListValue/Any leaves"]
CASE_TIMEOUT = 400
PARALLEL = 12


def floors(tier):
    k = 1 if tier == "quick" else 8
    return {"calls_judged": 800 * k, "arity:unary_unary": 300 * k, "arity:unary_stream": 10 * k, "arity:stream_unary": 10 * k,
            "arity:stream_stream": 10 * k, "form:dict": 100 * k, "form:omitted": 100 * k, "client:async": 300 * k,
            "foreign_request": 20 * k, "void": 20 * k, "second_client_calls": 100 * k, "big_reply_calls": 16 * k, "calls_judged_with_debug_logging": 300 * k}


def plan(seed, tier):
    n = 14 if tier == "quick" else 160
    cases = [{"id": f"wire-{seed}-{i}", "seed": seed * 100003 + i} for i in range(n)]
    # APIs that define RPCs named like mixin RPCs themselves while the service YAML lists the mixin: the API's own RPC is the one called
    cases += [{"id": f"wire-own-iam-{seed}-{i}", "seed": seed * 100003 + 7000 + i, "own_iam": True} for i in range(max(3, n // 5))]
    # two proto-plus modules with one base name (root package and a sub-package) behind one service
    cases += [{"id": f"wire-twin-{seed}-{i}", "seed": seed * 100003 + 8000 + i, "twin": True} for i in range(max(2, n // 8))]
    # the whole API moved into a proto sub-package (next to a sibling sub-package)
    cases += [{"id": f"wire-sub-{seed}-{i}", "seed": seed * 100003 + 6000 + i, "subpkg": True} for i in range(max(2, n // 10))]
    return cases


def build_api(case):
    rng = random.Random(case["seed"])
    if case.get("twin"):
        return apigen.twin_module_api(rng, "r%d" % (case["seed"] % 100000))
    if case.get("own_iam"):
        own = rng.choice([["GetIamPolicy"], ["SetIamPolicy", "TestIamPermissions"], ["SetIamPolicy", "GetIamPolicy", "TestIamPermissions"]])
        return apigen.mixin_api(rng, "r%d" % (case["seed"] % 100000), rng.choice([["iam"], ["iam", "locations"], ["operations", "iam"]]), "all",
                                own_iam=own, transport="grpc", annex=["before", "after", None][case["seed"] % 3])
    api = apigen.wellformed(rng, "r%d" % (case["seed"] % 100000))
    if rng.random() < 0.6 and "foreign-request" not in api.tags:
        rng2 = random.Random(case["seed"] + 1)
        api = apigen.conventional(rng2, "r%d" % (case["seed"] % 100000),
                                  {"foreign": True, "streams": True, "exotic": rng2.random() < 0.5})
    api.options = ["transport=grpc", "autogen-snippets=false"]
    if case.get("subpkg"):
        # a moderate API: with sub-packages the unversioned alias __init__.py renders the repr() of every sub-package's API view (known
        # finding C01-subpackage-*), which for the large "exotic" shapes takes minutes
        api = apigen.conventional(random.Random(case["seed"] + 100), "r%d" % (case["seed"] % 100000),
                                  {"foreign": True, "streams": True, "exotic": False, "nfiles": 1})
        api.options = ["transport=grpc", "autogen-snippets=false"]
        apigen.into_subpackage(api)
    return api


def make_calls(rng, req, model, per_rpc=2):
    calls = []
    for p, s, m in refs.target_methods(req):
        ar = refs.arity(m)
        in_d, out_d = model.desc(m.input_type), model.desc(m.output_type)
        paged = refs.paged_field(model, m)
        lro = refs.lro_info(m)
        void = m.output_type == ".google.protobuf.Empty"
        forms = ["message", "dict", "omitted"] if not m.client_streaming else ["message"]
        for form in forms:
            for rep in range((per_rpc if ar == "unary_unary" else 4) if form == "message" else 1):
                nreq = 1 if not m.client_streaming else rng.randint(1, 3)
                reqs = []
                for _ in range(nreq):
                    x = model.new(m.input_type)
                    if form != "omitted":
                        rdm.fill(rng, x, max_depth=2)
                    reqs.append(x)
                call = {"service": s.name, "full_service": f"{p.package}.{s.name}", "rpc": m.name,
                        "method": rdm.py_method(m.name), "arity": ar, "form": form, "req_type": m.input_type.lstrip("."),
                        "resp_type": m.output_type.lstrip("."), "requests": [rdm.b64(x.SerializeToString()) for x in reqs],
                        "kind": "lro" if lro else ("paged" if paged and paged != "AMBIGUOUS" else "plain"), "void": void,
                        "foreign_req": not m.input_type.lstrip(".").startswith(p.package + ".")}
                if paged == "AMBIGUOUS":
                    continue
                if form == "dict":
                    try:
                        call["dict"] = rdm.to_py(reqs[0])
                    except rdm.Unsupported:
                        continue
                # scripted replies
                nrep = 1 if not m.server_streaming else rng.randint(0, 3)
                reps = []
                for _ in range(nrep):
                    y = model.new(m.output_type)
                    if lro:
                        y.name = "operations/op-%d" % rng.randint(1, 999)
                        y.done = False
                    elif not void:
                        skip = (lambda fd: fd.name == "next_page_token") if call["kind"] == "paged" else None
                        rdm.fill(rng, y, max_depth=2, skip=skip)
                    reps.append(rdm.b64(y.SerializeToString()))
                call["replies"] = reps
                # every third message-form call is repeated through a second client of the service on another channel
                call["second_client"] = form == "message" and len(calls) % 3 == 0
                calls.append(call)
    return calls


def run_case(case):
    scratch = pipeline.case_scratch("c03")
    api = build_api(case)
    req, g, lib = pipeline.build_and_generate(api, scratch)
    if not g.ok:
        return pipeline.gen_failed_result(g, api)
    model = rdm.Model(req)
    rng = random.Random(case["seed"] ^ 0x5A5A)
    calls = make_calls(rng, req, model)
    # one reply of 5.5 MiB (gRPC's default receive limit is 4 MiB) through clients whose transport makes the channel ITSELF (the
    # documented channel=<callable> hook), so that the channel options the transport asks for are in effect
    big = None
    for i, c in enumerate(calls):
        if c["arity"] == "unary_unary" and c["form"] == "message" and c["kind"] == "plain" and not c["void"]:
            d = model.desc(c["resp_type"])
            fd = next((f for f in d.fields if f.type in (FD.TYPE_STRING, FD.TYPE_BYTES) and f.label != FD.LABEL_REPEATED
                       and not f.containing_oneof), None)
            if fd is not None:
                y = model.parse(c["resp_type"], rdm.unb64(c["replies"][0]))
                val = ("x" if fd.type == FD.TYPE_STRING else b"x") * (5 * 2 ** 20 + 2 ** 19)
                setattr(y, fd.name, val)
                big = {"index": i, "field": fd.name, "reply": rdm.b64(y.SerializeToString()), "length": len(val)}
                break
    # every other case runs with the process's logging at DEBUG (an application that called logging.basicConfig(level=DEBUG)): the
    # emitted clients then also log each request and reply, and still issue exactly one call each
    debug_logging = bool(case["seed"] % 2)
    script = {"root_pkg": apigen.runner_root(api), "calls": calls, "big": big, "debug_logging": debug_logging}
    ev, rc, err = pipeline.run_runner("checks.c03", script, lib, timeout=300)
    if ev is None or "runner_crash" in ev or "library_import_error" in ev:
        return pipeline.runner_failed_result(ev, rc, err, api)
    viol, counters, sigs = [], {}, set()

    def bump(k, n=1):
        counters[k] = counters.get(k, 0) + n

    sample = None
    if big:
        for kind in ("sync", "async"):
            o = (ev.get("big") or {}).get(kind) or {}
            bump("big_reply_calls")
            mech = {"client": kind, "probe": "reply-larger-than-4MiB-on-a-transport-made-channel"}
            if o.get("error"):
                viol.append({"clause": "large-reply-not-delivered", "detail": {"rpc": calls[big["index"]]["rpc"], "client": kind, "bytes": big["length"],
                                                                              "why": o["error"]}, "mech": mech})
            elif o.get("length") != big["length"] or o.get("type") != calls[big["index"]]["resp_type"]:
                viol.append({"clause": "reply-payload", "detail": {"rpc": calls[big["index"]]["rpc"], "client": kind, "got": o, "sent_bytes": big["length"]},
                             "mech": mech})
    for call, res in zip(calls, ev["results"]):
        for kind in ("sync", "async"):
            r = res[kind]
            v = judge(model, call, r, ev["proxy_log"][kind])
            bump("calls_judged")
            if debug_logging:
                bump("calls_judged_with_debug_logging")
            bump("arity:" + call["arity"])
            bump("form:" + call["form"])
            bump("client:" + kind)
            if call["foreign_req"]:
                bump("foreign_request")
            if call["void"]:
                bump("void")
            bump("kind:" + call["kind"])
            for x in v:
                x["mech"] = {"arity": call["arity"], "form": call["form"], "client": kind, "kind": call["kind"]}
                x["detail"] = {"rpc": call["rpc"], "why": x["detail"]}
            viol.extend(v)
            if not v and any(len(rdm.unb64(b)) for b in call["requests"]) or call["form"] == "omitted":
                sigs.add(f"{call['arity']}|{call['form']}|{kind}|{'foreign' if call['foreign_req'] else 'own'}|{call['kind']}|{'void' if call['void'] else 'value'}")
            r2 = res.get(kind + "2")
            if r2 is not None:
                bump("second_client_calls")
                v2 = judge(model, call, r2, ev["proxy_log"][kind + "2"])
                if r2.get("leaked_to_first_channel"):
                    v2.append({"clause": "call-on-another-clients-channel",
                               "detail": f"{r2['leaked_to_first_channel']} call(s) arrived on the first client's channel"})
                for x in v2:
                    x["mech"] = {"arity": call["arity"], "form": call["form"], "client": kind, "kind": call["kind"], "second_client": True}
                    x["detail"] = {"rpc": call["rpc"], "why": x["detail"], "second_client_of_service": True}
                viol.extend(v2)
                if not v2:
                    sigs.add(f"second-client|{call['arity']}|{kind}")
            if sample is None and call["form"] == "message" and r.get("events"):
                sample = {"rpc": call["rpc"], "client": kind, "server_event": {k: r["events"][0][k] for k in ("method", "requests")},
                          "returned": r.get("returned")}
    return {"verdict": "violated" if viol else "held", "violations": pipeline.diverse(viol, 40), "evaluations": counters.get("calls_judged", 0),
            "nontrivial_sigs": sorted(sigs), "counters": counters, "sample": sample or {}}


def judge(model, call, r, proxy_log):
    v = []

    def bad(clause, detail):
        v.append({"clause": clause, "detail": detail})

    if r.get("error"):
        bad("client-raised", r["error"])
        return v
    evs = r["events"]
    if len(evs) != 1:
        bad("call-count", f"{len(evs)} server records for one invocation")
        return v
    e = evs[0]
    want = f"/{call['full_service']}/{call['rpc']}"
    if e["method"] != want:
        bad("method-path", f"{e['method']} != {want}")
    ar = [a for a, path in proxy_log if path == e["method"]]
    if not ar or any(a != call["arity"] for a in ar):
        bad("arity", f"channel asked for {ar} on {e['method']}, proto declares {call['arity']}")
    if len(e["requests"]) != len(call["requests"]):
        bad("request-count", f"{len(e['requests'])} payloads for {len(call['requests'])} requests")
    else:
        for got, sent in zip(e["requests"], call["requests"]):
            a = model.parse(call["req_type"], rdm.unb64(got))
            b = model.parse(call["req_type"], rdm.unb64(sent))
            if a != b or rdm.has_unknown(a):
                bad("request-payload", f"server decoded {str(a)[:300]!r}, caller sent {str(b)[:300]!r}")
                break
    # reply
    ret = r["returned"]
    if call["void"] and call["kind"] == "plain" and call["arity"] in ("unary_unary", "stream_unary"):
        if ret != [[None, None]]:
            bad("void-not-none", f"returned {ret}")
        return v
    exp = call["replies"]
    if len(ret) != len(exp):
        bad("reply-count", f"caller got {len(ret)} values, server sent {len(exp)}")
        return v
    for (tname, data), sent in zip(ret, exp):
        if tname != call["resp_type"]:
            bad("reply-type", f"caller got {tname}, declared {call['resp_type']}")
            break
        if data is None:
            bad("reply-type", f"unserialisable {tname}")
            break
        a = model.parse(call["resp_type"], rdm.unb64(data))
        b = model.parse(call["resp_type"], rdm.unb64(sent))
        if a != b or rdm.has_unknown(a):
            bad("reply-payload", f"caller got {str(a)[:300]!r}, server sent {str(b)[:300]!r}")
            break
    return v


# ---------------------------------------------------------------------------
# fresh interpreter side

def in_runner(script):
    import asyncio
    from vlib import rt
    if script.get("debug_logging"):
        import logging
        logging.getLogger().addHandler(logging.NullHandler())
        logging.getLogger().setLevel(logging.DEBUG)
        for noisy in ("grpc", "asyncio", "google.auth"):
            logging.getLogger(noisy).setLevel(logging.WARNING)
    lib = rt.Lib(script["root_pkg"])
    srv = rt.GrpcServer()
    srv2 = rt.GrpcServer()          # the second client of each service and kind talks to this one
    logs = {"sync": [], "async": [], "sync2": [], "async2": []}
    results = [{"sync": None, "async": None, "sync2": None, "async2": None} for _ in script["calls"]]
    clients = {}

    def prep(call, server=None):
        (server or srv).script("/%s/%s" % (call["full_service"], call["rpc"]), [{"payloads": call["replies"]}])
        reqs = [lib.mk(call["req_type"], rt.unb64(b)) for b in call["requests"]]
        if call["form"] == "dict":
            from vlib.rdm import decode_py
            return [decode_py(call["dict"])]
        return reqs

    def unwrap_sync(call, ret):
        if call["kind"] == "lro":
            return [rt.ser(ret.operation)]
        if call["kind"] == "paged":
            return [rt.ser(next(iter(ret.pages)))]
        if call["arity"] in ("unary_stream", "stream_stream"):
            return [rt.ser(x) for x in ret]
        return [rt.ser(ret)]

    for i, call in enumerate(script["calls"]):
        svc = call["service"]
        if svc not in clients:
            clients[svc] = lib.grpc_client(svc, srv.target, logs["sync"])
        c = clients[svc]
        reqs = prep(call)
        mark = srv.mark()
        out = {}
        try:
            fn = getattr(c, call["method"])
            if call["arity"] in ("stream_unary", "stream_stream"):
                ret = fn(requests=iter(reqs))
            elif call["form"] == "omitted":
                ret = fn()
            else:
                ret = fn(request=reqs[0])
            out["returned"] = [list(x) for x in unwrap_sync(call, ret)]
        except BaseException as e:  # noqa
            out["error"] = rt.exc_info(e)
        out["events"] = srv.since(mark)
        results[i]["sync"] = out

    # a second client of the same service in the same process, on its own channel, after the first one has been used
    clients2 = {}
    for i, call in enumerate(script["calls"]):
        if not call.get("second_client"):
            continue
        svc = call["service"]
        if svc not in clients2:
            clients2[svc] = lib.grpc_client(svc, srv2.target, logs["sync2"])
        c = clients2[svc]
        reqs = prep(call, srv2)
        mark, mark2 = srv.mark(), srv2.mark()
        out = {}
        try:
            fn = getattr(c, call["method"])
            if call["arity"] in ("stream_unary", "stream_stream"):
                ret = fn(requests=iter(reqs))
            else:
                ret = fn(request=reqs[0])
            out["returned"] = [list(x) for x in unwrap_sync(call, ret)]
        except BaseException as e:  # noqa
            out["error"] = rt.exc_info(e)
        out["events"] = srv2.since(mark2)
        out["leaked_to_first_channel"] = len(srv.since(mark))
        results[i]["sync2"] = out

    async def amain():
        aclients = {}
        for i, call in enumerate(script["calls"]):
            svc = call["service"]
            if svc not in aclients:
                aclients[svc] = lib.aio_client(svc, srv.target, logs["async"])
            c = aclients[svc]
            reqs = prep(call)
            mark = srv.mark()
            out = {}
            try:
                fn = getattr(c, call["method"])
                if call["arity"] in ("stream_unary", "stream_stream"):
                    async def agen(items=reqs):
                        for x in items:
                            yield x
                    ret = fn(requests=agen())
                elif call["form"] == "omitted":
                    ret = fn()
                else:
                    ret = fn(request=reqs[0])
                ret, nawait = await rt.drain_awaitable(ret)
                out["awaits"] = nawait
                if call["kind"] == "lro":
                    vals = [rt.ser(ret.operation)]
                elif call["kind"] == "paged":
                    first = None
                    async for page in ret.pages:
                        first = page
                        break
                    vals = [rt.ser(first)]
                elif call["arity"] in ("unary_stream", "stream_stream"):
                    vals = [rt.ser(x) async for x in ret]
                else:
                    vals = [rt.ser(ret)]
                out["returned"] = [list(x) for x in vals]
            except BaseException as e:  # noqa
                out["error"] = rt.exc_info(e)
            out["events"] = srv.since(mark)
            results[i]["async"] = out
        aclients2 = {}
        for i, call in enumerate(script["calls"]):
            if not call.get("second_client"):
                continue
            svc = call["service"]
            if svc not in aclients2:
                aclients2[svc] = lib.aio_client(svc, srv2.target, logs["async2"])
            c = aclients2[svc]
            reqs = prep(call, srv2)
            mark, mark2 = srv.mark(), srv2.mark()
            out = {}
            try:
                fn = getattr(c, call["method"])
                if call["arity"] in ("stream_unary", "stream_stream"):
                    async def agen2(items=reqs):
                        for x in items:
                            yield x
                    ret = fn(requests=agen2())
                else:
                    ret = fn(request=reqs[0])
                ret, nawait = await rt.drain_awaitable(ret)
                if call["kind"] == "lro":
                    vals = [rt.ser(ret.operation)]
                elif call["kind"] == "paged":
                    first = None
                    async for page in ret.pages:
                        first = page
                        break
                    vals = [rt.ser(first)]
                elif call["arity"] in ("unary_stream", "stream_stream"):
                    vals = [rt.ser(x) async for x in ret]
                else:
                    vals = [rt.ser(ret)]
                out["returned"] = [list(x) for x in vals]
            except BaseException as e:  # noqa
                out["error"] = rt.exc_info(e)
            out["events"] = srv2.since(mark2)
            out["leaked_to_first_channel"] = len(srv.since(mark))
            results[i]["async2"] = out

    asyncio.run(amain())
    bigout = {}
    if script.get("big"):
        import grpc
        from google.auth.credentials import AnonymousCredentials
        b = script["big"]
        call = script["calls"][b["index"]]
        path = "/%s/%s" % (call["full_service"], call["rpc"])
        req0 = lib.mk(call["req_type"], rt.unb64(call["requests"][0]))

        def sync_channel(host, **kw):
            return grpc.insecure_channel(host, options=kw.get("options"))

        def aio_channel(host, **kw):
            return grpc.aio.insecure_channel(host, options=kw.get("options"))

        o = bigout["sync"] = {}
        try:
            C = lib.client_cls(call["service"])
            c = C(transport=C.get_transport_class("grpc")(host=srv.target, channel=sync_channel, credentials=AnonymousCredentials()))
            srv.script(path, [{"payloads": [b["reply"]]}])
            ret = getattr(c, call["method"])(request=req0)
            o["type"] = rt.ser(ret)[0]
            o["length"] = len(getattr(ret, b["field"]))
        except BaseException as e:  # noqa
            o["error"] = rt.exc_info(e)

        async def abig():
            o = bigout["async"] = {}
            try:
                C = lib.client_cls(call["service"], asyn=True)
                c = C(transport=C.get_transport_class("grpc_asyncio")(host=srv.target, channel=aio_channel, credentials=AnonymousCredentials()))
                srv.script(path, [{"payloads": [b["reply"]]}])
                ret = await getattr(c, call["method"])(request=req0)
                o["type"] = rt.ser(ret)[0]
                o["length"] = len(getattr(ret, b["field"]))
            except BaseException as e:  # noqa
                o["error"] = rt.exc_info(e)

        asyncio.run(abig())
    srv.stop()
    srv2.stop()
    return {"results": results, "proxy_log": logs, "big": bigout}
