#!/bin/sh
# tools/evalpatch.sh <patch.diff> <PID>[,<PID>...] [seed] — run quick checks against a scratch worktree of /repo HEAD with the patch
# applied (never touches /repo's working tree); removes the worktree afterwards.
set -u
patch=$(readlink -f "$1"); pids=$2; seed=${3:-0}
wt=/tmp/ev/$$-wt
mkdir -p /tmp/ev
git -C /repo worktree add -q --detach "$wt" HEAD || exit 2
trap 'git -C /repo worktree remove --force "$wt" 2>/dev/null; rmdir /tmp/ev 2>/dev/null' EXIT
git -C "$wt" apply "$patch" || { echo "patch does not apply"; exit 2; }
cd /verif
for p in $(echo "$pids" | tr , ' '); do
  VERIF_REPO=$wt VERIF_NO_EVIDENCE=1 VERIF_SEED=$seed ./check "$p" --tier "${TIER:-quick}" > /tmp/ev/$$-$p.log 2>&1
  rc=$?
  echo "$p rc=$rc violations=$(grep -c '^VIOLATION' /tmp/ev/$$-$p.log) clauses: $(grep '^VIOLATION' /tmp/ev/$$-$p.log | grep -o 'clause=[A-Za-z_:.-]*' | sort | uniq -c | tr '\n' ' ')"
  grep '^VIOLATION' /tmp/ev/$$-$p.log | head -${SHOW:-1} | cut -c1-${WIDTH:-500}
  rm -f /tmp/ev/$$-$p.log
done
