"""C07 — paginated methods yield every item of every page exactly once, in order."""
import json
import random

from google.protobuf import json_format
from google.protobuf.descriptor import FieldDescriptor as FD

from vlib import apigen, pipeline, rdm, refs

ID = "C07"
LEVEL = "exploration"
RULE = ("cases = seeded APIs whose request/response shapes sit around the AIP-4233 field rules (each required field present / absent / "
        "mistyped, several repeated fields, repeated scalars/enums, maps, items from another file); classification (pager or plain "
        "response) is compared with a reference predicate; for paged methods scripted page histories (1..5 pages, sizes 0..3, unique "
        "ids, extra pages after the first empty token) are served and the sequence of requests seen by the server (token threading, "
        "other fields, user metadata, routing header, deadline class) and the sequence of items yielded are judged, for sync gRPC, "
        "asyncio gRPC and REST; distinct = distinct (request shape, response shape, history shape, client kind, iteration mode) that held")
ASSUMPTIONS = ["shapes the statement leaves open (both size fields present with only one well typed) are not judged",
               "deadlines compared within +-3 s of values >= 20 s apart"]
CASE_TIMEOUT = 500
PARALLEL = 12


def floors(tier):
    k = 1 if tier == "quick" else 8
    return {"classifications": 300 * k, "classified_paged": 100 * k, "classified_plain": 100 * k, "histories": 500 * k,
            "pages_served": 1200 * k, "items_yielded": 1500 * k, "empty_intermediate_pages": 50 * k, "client:aio": 150 * k,
            "client:rest": 100 * k, "map_histories": 10 * k, "retry_forwarded_probes": 40 * k, "retry_none_probes": 15 * k, "caller_request_objects_checked": 400 * k}


def plan(seed, tier):
    n = 10 if tier == "quick" else 90
    cases = [{"id": f"page-{seed}-{i}", "seed": seed * 100003 + i} for i in range(n)]
    # the whole API moved into a proto sub-package (next to a sibling sub-package): nothing about the property changes
    cases += [{"id": f"page-sub-{seed}-{i}", "seed": seed * 100003 + 6000 + i, "subpkg": True} for i in range(2 if tier == "quick" else 9)]
    return cases


def build_api(case):
    rng = random.Random(case["seed"])
    api = apigen.paging_api(rng, "p%d" % (case["seed"] % 100000))
    return apigen.into_subpackage(api) if case.get("subpkg") else api


def make_history(rng, model, m, field, uid):
    """Pages of the scripted server history: [(response message, token)] plus tail pages that must never be fetched."""
    npages = rng.randint(1, 5)
    # cursor-style services hand out ONE token for the whole listing (a server-side cursor id) until it is exhausted: only an empty
    # token ends a listing, a repeated one does not
    cursor = f"cursor-{uid[0]}" if rng.random() < 0.2 else None
    out_d = model.desc(m.output_type)
    fd = out_d.fields_by_name[field]
    pages = []
    for pi in range(npages + 2):
        y = model.new(m.output_type)
        n = rng.choice([0, 1, 2, 3]) if 0 < pi < npages - 1 or rng.random() < 0.8 else 0
        for _ in range(n):
            uid[0] += 1
            if rdm.is_map(fd):
                getattr(y, field)[f"k{uid[0]}"].uid = f"id-{uid[0]}"
            elif fd.type == FD.TYPE_MESSAGE:
                it = getattr(y, field).add()
                it.uid = f"id-{uid[0]}"
            elif fd.type == FD.TYPE_STRING:
                getattr(y, field).append(f"id-{uid[0]}")
            elif fd.type == FD.TYPE_ENUM:
                getattr(y, field).append(rng.choice([0, 1, 2, 3]))
        # other repeated fields carry decoys that must not be yielded
        for f2 in out_d.fields:
            if f2.name != field and f2.label == FD.LABEL_REPEATED and not rdm.is_map(f2) and rng.random() < 0.7:
                uid[0] += 1
                if f2.type == FD.TYPE_MESSAGE:
                    getattr(y, f2.name).add().uid = f"decoy-{uid[0]}"
                elif f2.type == FD.TYPE_STRING:
                    getattr(y, f2.name).append(f"decoy-{uid[0]}")
        if "total_size" in out_d.fields_by_name:
            y.total_size = 1000 + pi
        tok = (cursor or f"tok-{uid[0]}-{pi}") if pi < npages - 1 else ""
        if pi >= npages:
            tok = f"never-{pi}"
        y.next_page_token = tok
        pages.append(y)
    return pages, npages


def run_case(case):
    scratch = pipeline.case_scratch("c07")
    api = build_api(case)
    req, g, lib = pipeline.build_and_generate(api, scratch)
    if not g.ok:
        return pipeline.gen_failed_result(g, api)
    model = rdm.Model(req)
    rng = random.Random(case["seed"] ^ 0xC07)
    uid = [0]
    calls = []
    for p, s, m in refs.target_methods(req):
        field = refs.paged_field(model, m)
        if field == "AMBIGUOUS":
            continue
        base = {"service": s.name, "full_service": f"{p.package}.{s.name}", "rpc": m.name, "method": rdm.py_method(m.name),
                "req_type": m.input_type.lstrip("."), "resp_type": m.output_type.lstrip("."), "field": field,
                "shape": api.info["shapes"].get(m.name)}
        for t in range(4 if field else 1):
            x = model.new(m.input_type)
            x.parent = "projects/" + rng.choice(["a", "b1"])
            rdm.fill(rng, x, max_depth=2, skip=lambda fd: fd.name in ("parent", "page_token"))
            _prune_empty(x)
            if rng.random() < 0.3 and "page_token" in x.DESCRIPTOR.fields_by_name and x.DESCRIPTOR.fields_by_name["page_token"].type == FD.TYPE_STRING:
                x.page_token = "start-token"
            for kind in ("grpc", "aio", "rest"):
                if field:
                    pages, npages = make_history(rng, model, m, field, uid)
                else:
                    y = model.new(m.output_type)
                    rdm.fill(rng, y, max_depth=1)
                    pages, npages = [y], 1
                timeout = rng.choice([None, 30.0, 75.0])
                # the caller's retry= must reach the fetch of every page: one UNAVAILABLE is injected before a later page
                fault = rng.randint(1, npages - 1) if (field and kind != "rest" and npages >= 2 and rng.random() < 0.35) else None
                # ... and an explicit retry=None on a method WITH a default retry policy must reach them too: the injected fault surfaces
                none_fault = None
                if fault is None and field and kind != "rest" and npages >= 2 and m.name in api.info.get("default_retry_methods", []) and rng.random() < 0.5:
                    none_fault = rng.randint(1, npages - 1)
                calls.append({**base, "kind": kind, "retry_fault_page": fault, "retry_none_fault_page": none_fault, "request": rdm.b64(x.SerializeToString()),
                              "pages": [rdm.b64(y.SerializeToString()) for y in pages],
                              "pages_json": [json_format.MessageToJson(y) for y in pages], "npages": npages,
                              "mode": rng.choice(["items", "pages"]), "timeout": timeout,
                              "metadata": [["x-test-md", f"v{uid[0]}"]]})
    script = {"root_pkg": apigen.runner_root(api), "calls": calls}
    ev, rc, err = pipeline.run_runner("checks.c07", script, lib, timeout=400)
    if ev is None or "runner_crash" in ev or "library_import_error" in ev:
        return pipeline.runner_failed_result(ev, rc, err, api)
    viol, counters, sigs = [], {}, set()

    def bump(k, n=1):
        counters[k] = counters.get(k, 0) + n

    sample = None
    for call, r in zip(calls, ev["results"]):
        v = judge(model, call, r, bump)
        for x in v:
            x["mech"] = {"client": call["kind"], "shape": call["shape"], "mode": call["mode"]}
            x["detail"] = {"rpc": call["rpc"], "shape": call["shape"], "client": call["kind"], "why": x["detail"]}
        viol.extend(v)
        if not v:
            sizes = [len(_items_of(model, call, pg)) for pg in call["pages"][:call["npages"]]] if call["field"] else []
            sigs.add(f"{call['shape']}|{call['kind']}|{call['mode']}|pages={len(sizes)}|{'has-empty' if 0 in sizes[:-1] else 'dense'}")
            if sample is None and call["field"] and call["npages"] > 2 and r.get("requests"):
                sample = {"rpc": call["rpc"], "shape": call["shape"], "client": call["kind"], "page_sizes": sizes,
                          "tokens_seen_by_server": r.get("tokens"), "items_yielded": len(r.get("items") or [])}
    return {"verdict": "violated" if viol else "held", "violations": pipeline.diverse(viol, 40), "evaluations": len(calls),
            "nontrivial_sigs": sorted(sigs), "counters": counters, "sample": sample or {}}


def _prune_empty(m):
    for fd, v in list(m.ListFields()):
        if fd.type == FD.TYPE_MESSAGE and fd.label != FD.LABEL_REPEATED and not rdm.is_map(fd) \
                and not fd.message_type.full_name.startswith("google.protobuf."):
            _prune_empty(v)
            if v.ByteSize() == 0:
                m.ClearField(fd.name)


def _rest_request(model, call, rq):
    """Rebuild the request message from path + query of a recorded HTTP request."""
    import urllib.parse
    h = rq["http"]
    pairs = [(k, x) for k, x in urllib.parse.parse_qsl(h["query"], keep_blank_values=True) if not k.startswith("$")]
    qm, _ = refs.query_to_message(model, call["req_type"], pairs)
    path = urllib.parse.unquote(h["path"])
    parts = path.split("/")          # /v1/projects/<x>/items<i>
    qm.parent = "/".join(parts[2:4])
    return qm


def _items_of(model, call, page_b64):
    y = model.parse(call["resp_type"], rdm.unb64(page_b64))
    fd = y.DESCRIPTOR.fields_by_name[call["field"]]
    v = getattr(y, call["field"])
    if rdm.is_map(fd):
        return sorted(["map", k, rdm.b64(v[k].SerializeToString())] for k in v)   # entry order is not defined
    if fd.type == FD.TYPE_MESSAGE:
        return [["msg", rdm.b64(x.SerializeToString())] for x in v]
    return [["scalar", x] for x in v]


def judge(model, call, r, bump):
    v = []

    def bad(clause, detail):
        v.append({"clause": clause, "detail": detail})

    bump("classifications")
    nfp = call.get("retry_none_fault_page")
    if nfp is not None:
        bump("retry_none_probes")
        err = r.get("error") or {}
        nreq = len(r.get("requests") or [])
        if err.get("code") != "UNAVAILABLE" and "ServiceUnavailable" not in (err.get("mro") or []):
            bad("explicit-retry-none-not-forwarded-to-later-page", {"fault_before_page": nfp, "outcome": err or "listing completed", "requests_seen": nreq,
                                                                    "pages": call["npages"]})
        elif nreq != nfp + 1:
            bad("explicit-retry-none-not-forwarded-to-later-page", {"fault_before_page": nfp, "requests_seen": nreq, "expected": nfp + 1})
        return v
    if r.get("error") and call.get("retry_fault_page") is not None:
        bad("retry-not-forwarded-to-later-page", {"fault_before_page": call["retry_fault_page"], "error": r["error"]})
        return v
    if r.get("error"):
        bad("client-raised", r["error"])
        return v
    want_pager = bool(call["field"])
    if r["is_pager"] != want_pager:
        bad("classification", f"returned {'a pager' if r['is_pager'] else r.get('type')} but reference says {'paged on ' + str(call['field']) if want_pager else 'not paged'}")
        return v
    if not want_pager:
        bump("classified_plain")
        if r.get("type") != call["resp_type"]:
            bad("plain-response-type", f"{r.get('type')} != {call['resp_type']}")
        return v
    bump("classified_paged")
    bump("histories")
    bump("client:" + call["kind"])
    n = call["npages"]
    fd_map = False
    exp_items = []
    for pg in call["pages"][:n]:
        it = _items_of(model, call, pg)
        exp_items += it
    sizes = [len(_items_of(model, call, pg)) for pg in call["pages"][:n]]
    if 0 in sizes[:-1]:
        bump("empty_intermediate_pages")
    if exp_items and exp_items[0][0] == "map":
        bump("map_histories")
    bump("pages_served", n)
    bump("items_yielded", len(exp_items))
    # requests
    reqs = r["requests"]
    fp = call.get("retry_fault_page")
    if fp is not None and fp < n:
        bump("retry_forwarded_probes")
        # the failed fetch and its retry are two identical requests for page fp
        if len(reqs) == n + 1 and reqs[fp].get("request") == reqs[fp + 1].get("request"):
            reqs = reqs[:fp] + reqs[fp + 1:]
        else:
            bad("retry-not-forwarded-to-later-page", {"fault_before_page": fp, "requests_seen": len(reqs), "pages": n})
            return v
    if len(reqs) != n:
        bad("request-count", f"server saw {len(reqs)} requests for a history whose first empty token is on page {n}")
        return v
    first = model.parse(call["req_type"], rdm.unb64(call["request"]))
    # the pager works on its own copy: the object the caller passed still holds what the caller put there (so listing again
    # with it starts at the first page, and later edits do not leak into the running listing)
    if r.get("request_after") is not None:
        bump("caller_request_objects_checked")
        if model.parse(call["req_type"], rdm.unb64(r["request_after"])) != first:
            bad("caller-request-object-mutated", {"after": str(model.parse(call["req_type"], rdm.unb64(r["request_after"])))[:200],
                                                  "before": str(first)[:200]})
    prev_tok = None
    for i, rq in enumerate(reqs):
        if "http" in rq:
            try:
                got = _rest_request(model, call, rq)
            except refs.HttpRefError as ex:
                bad("page-request-differs", {"page": i, "http": rq["http"], "why": str(ex)})
                break
        else:
            got = model.parse(call["req_type"], rdm.unb64(rq["request"]))
        want = model.new(call["req_type"])
        want.CopyFrom(first)
        if i > 0:
            want.page_token = prev_tok
        if got != want:
            bad("page-request-differs", {"page": i, "got": str(got)[:300], "want": str(want)[:300]})
            break
        prev_tok = model.parse(call["resp_type"], rdm.unb64(call["pages"][i])).next_page_token
        md = dict((k.lower(), x) for k, x in rq["metadata"])
        if md.get("x-test-md") != call["metadata"][0][1]:
            bad("metadata-not-forwarded", {"page": i, "metadata": md.get("x-test-md")})
            break
        if md.get("x-goog-request-params") != dict((k.lower(), x) for k, x in reqs[0]["metadata"]).get("x-goog-request-params"):
            bad("routing-header-changes-between-pages", {"page": i})
            break
        if call["kind"] != "rest":
            tr = rq["time_remaining"]
            if call["timeout"] is None:
                if tr is not None:
                    bad("deadline-appears", {"page": i, "time_remaining": tr})
                    break
            elif tr is None or not (call["timeout"] - 5 - rq.get("stall", 0.0) <= tr <= call["timeout"] + 0.5):
                bad("deadline-not-forwarded", {"page": i, "time_remaining": tr, "timeout": call["timeout"]})
                break
    # items (map entries: order within one page is not defined on the wire -> compare page-wise sorted)
    if exp_items and exp_items[0][0] == "map" and call["mode"] == "items":
        bounds, acc = [], 0
        for sz in sizes:
            bounds.append((acc, acc + sz))
            acc += sz
        r["items"] = [x for a, b in bounds for x in sorted(r["items"][a:b])] + r["items"][acc:]
    if call["mode"] == "pages" and r.get("page_items") and any(x and x[0][0] == "map" for x in r["page_items"]):
        r["page_items"] = [sorted(x) for x in r["page_items"]]
    if call["mode"] == "items":
        if r["items"] != exp_items:
            bad("items-differ", {"yielded": r["items"][:8], "expected": exp_items[:8], "n_yielded": len(r["items"]), "n_expected": len(exp_items)})
    else:
        per_page = [_items_of(model, call, pg) for pg in call["pages"][:n]]
        if r["page_items"] != per_page:
            bad("page-items-differ", {"pages": [len(x) for x in r["page_items"]], "expected": [len(x) for x in per_page]})
        toks = [model.parse(call["resp_type"], rdm.unb64(pg)).next_page_token for pg in call["pages"][:n]]
        if r["attr_tokens"] != toks:
            bad("pager-attributes-stale", {"seen": r["attr_tokens"], "expected": toks})
    return v


# ---------------------------------------------------------------------------

def in_runner(script):
    import asyncio
    from vlib import rt
    lib = rt.Lib(script["root_pkg"])
    srv = rt.GrpcServer()
    http = rt.HttpServer()
    results = [None] * len(script["calls"])
    clients = {}

    def item_ser(x):
        if isinstance(x, tuple):
            return ["map", x[0], rt.ser(x[1])[1]]
        t, b = rt.ser(x) if hasattr(x, "__class__") and (hasattr(type(x), "serialize") or hasattr(x, "SerializeToString")) else (None, None)
        if b is not None:
            return ["msg", b]
        return ["scalar", int(x) if not isinstance(x, str) else x]

    def page_items(call, page):
        v = getattr(page, call["field"])
        if hasattr(v, "items") and not isinstance(v, (list, tuple)) and call.get("is_map"):
            return [item_ser((k, v[k])) for k in v]
        try:
            return [item_ser((k, v[k])) for k in v.keys()]
        except AttributeError:
            return [item_ser(x) for x in v]

    def kwargs_of(call):
        kw = {"metadata": [tuple(x) for x in call["metadata"]]}
        if call["timeout"] is not None:
            kw["timeout"] = call["timeout"]
        if call.get("retry_none_fault_page") is not None:
            kw["retry"] = None
        if call.get("retry_fault_page") is not None:
            from google.api_core import exceptions as core_exceptions
            from google.api_core import retry as retries
            from google.api_core import retry_async as retries_async
            R = retries_async.AsyncRetry if call["kind"] == "aio" else retries.Retry
            kw["retry"] = R(initial=0.001, maximum=0.002, multiplier=1.0, timeout=20.0,
                            predicate=retries.if_exception_type(core_exceptions.ServiceUnavailable))
        return kw

    def grpc_script(call):
        reps = [{"payloads": [p]} for p in call["pages"]]
        if call.get("retry_fault_page") is not None:
            reps.insert(call["retry_fault_page"], {"code": "UNAVAILABLE"})
        if call.get("retry_none_fault_page") is not None:
            reps.insert(call["retry_none_fault_page"], {"code": "UNAVAILABLE"})
        return reps

    def collect_grpc(call, mark):
        out = []
        for e in srv.since(mark):
            out.append({"request": e["requests"][0] if e["requests"] else "", "metadata": e["metadata"], "time_remaining": e["time_remaining"],
                        "stall": max(0.0, e["t"] - call.get("_t0", e["t"]))})
        return out

    def collect_http(call, mark):
        out = []
        import urllib.parse
        for e in http.since(mark):
            # rebuild the request message from the query (simple shapes only: GET with query parameters)
            out.append({"http": {"path": e["path"], "query": e["query"]}, "metadata": e["headers"], "time_remaining": None})
        return out

    for i, call in enumerate(script["calls"]):
        if call["kind"] == "aio":
            continue
        svc = call["service"]
        key = (svc, call["kind"])
        if key not in clients:
            clients[key] = lib.grpc_client(svc, srv.target) if call["kind"] == "grpc" else lib.rest_client(svc, http.host)
        c = clients[key]
        req = lib.mk(call["req_type"], rt.unb64(call["request"]))
        o = {}
        if call["kind"] == "grpc":
            srv.script("/%s/%s" % (call["full_service"], call["rpc"]), grpc_script(call))
            mark = srv.mark()
        else:
            http.script([{"status": 200, "body": pj} for pj in call["pages_json"]])
            mark = http.mark()
        call["_t0"] = __import__("time").monotonic()
        try:
            ret = getattr(c, call["method"])(request=req, **kwargs_of(call))
            o["is_pager"] = hasattr(ret, "pages") and not hasattr(type(ret), "serialize")
            if not o["is_pager"]:
                o["type"] = rt.ser(ret)[0]
            elif call["mode"] == "items":
                o["items"] = [item_ser(x) for x in ret]
            else:
                o["page_items"], o["attr_tokens"] = [], []
                for page in ret.pages:
                    o["page_items"].append(page_items(call, page))
                    o["attr_tokens"].append(ret.next_page_token)
        except BaseException as e:  # noqa
            o["error"] = rt.exc_info(e)
        o["request_after"] = rt.ser(req)[1]       # the caller's own request object, after the listing
        if call["kind"] == "grpc":
            o["requests"] = collect_grpc(call, mark)
            srv.script("/%s/%s" % (call["full_service"], call["rpc"]), [])
        else:
            o["requests"] = collect_http(call, mark)
            http.script([])
        o["tokens"] = None
        results[i] = o

    async def amain():
        ac = {}
        for i, call in enumerate(script["calls"]):
            if call["kind"] != "aio":
                continue
            svc = call["service"]
            if svc not in ac:
                ac[svc] = lib.aio_client(svc, srv.target)
            req = lib.mk(call["req_type"], rt.unb64(call["request"]))
            srv.script("/%s/%s" % (call["full_service"], call["rpc"]), grpc_script(call))
            mark = srv.mark()
            o = {}
            call["_t0"] = __import__("time").monotonic()
            try:
                ret = await getattr(ac[svc], call["method"])(request=req, **kwargs_of(call))
                o["is_pager"] = hasattr(ret, "pages") and not hasattr(type(ret), "serialize")
                if not o["is_pager"]:
                    o["type"] = rt.ser(ret)[0]
                elif call["mode"] == "items":
                    o["items"] = [item_ser(x) async for x in ret]
                else:
                    o["page_items"], o["attr_tokens"] = [], []
                    async for page in ret.pages:
                        o["page_items"].append(page_items(call, page))
                        o["attr_tokens"].append(ret.next_page_token)
            except BaseException as e:  # noqa
                o["error"] = rt.exc_info(e)
            o["request_after"] = rt.ser(req)[1]
            o["requests"] = collect_grpc(call, mark)
            srv.script("/%s/%s" % (call["full_service"], call["rpc"]), [])
            results[i] = o

    asyncio.run(amain())
    srv.stop()
    return {"results": results}
