"""Reference models written from the public specifications the properties
cite.  They read only the input descriptors; none of them calls into gapic.
"""
import re
import urllib.parse

from google.protobuf.descriptor import FieldDescriptor as FD

from google.api import annotations_pb2, client_pb2, field_behavior_pb2, resource_pb2, routing_pb2
from google.longrunning import operations_pb2

from vlib import rdm

INT_FD = {FD.TYPE_INT32, FD.TYPE_INT64, FD.TYPE_UINT32, FD.TYPE_UINT64, FD.TYPE_SINT32, FD.TYPE_SINT64,
          FD.TYPE_FIXED32, FD.TYPE_FIXED64, FD.TYPE_SFIXED32, FD.TYPE_SFIXED64}


def target_methods(req):
    """(file proto, service proto, method proto) of the files to generate."""
    for p in req.proto_file:
        if p.name in req.file_to_generate:
            for s in p.service:
                for m in s.method:
                    yield p, s, m


def arity(m):
    return {(False, False): "unary_unary", (False, True): "unary_stream",
            (True, False): "stream_unary", (True, True): "stream_stream"}[(m.client_streaming, m.server_streaming)]


# -- AIP-4233 ----------------------------------------------------------------

def paged_field(model, m):
    """Name of the repeated response field a pager iterates, or None.

    Written from the statement of C07; returns 'AMBIGUOUS' for shapes the
    statement leaves open (both size fields present and only one well typed).
    """
    if m.client_streaming or m.server_streaming:
        return None
    inp, out = model.desc(m.input_type), model.desc(m.output_type)

    def is_str(d, n):
        f = d.fields_by_name.get(n)
        return f is not None and f.type == FD.TYPE_STRING and f.label != FD.LABEL_REPEATED

    if not is_str(inp, "page_token") or not is_str(out, "next_page_token"):
        return None

    def size_ok(f, legacy):
        if f is None or f.label == FD.LABEL_REPEATED:
            return False
        if f.type in INT_FD:
            return True
        return (f.type == FD.TYPE_MESSAGE and f.message_type.full_name in (
            "google.protobuf.Int32Value", "google.protobuf.UInt32Value"))

    ps, mr = inp.fields_by_name.get("page_size"), inp.fields_by_name.get("max_results")
    if ps is None and mr is None:
        return None
    oks = [size_ok(f, f is mr) for f in (ps, mr) if f is not None]
    if any(oks) and not all(oks):
        return "AMBIGUOUS"
    if not any(oks):
        return None
    for f in out.fields:
        if f.label == FD.LABEL_REPEATED:
            return f.name
    return None


def lro_info(m):
    """(response_type, metadata_type) strings when the method returns
    google.longrunning.Operation and carries operation_info, else None."""
    if m.output_type != ".google.longrunning.Operation":
        return None
    if not m.options.HasExtension(operations_pb2.operation_info):
        return None
    oi = m.options.Extensions[operations_pb2.operation_info]
    return oi.response_type, oi.metadata_type


def required_fields(desc):
    out = []
    for f in desc.fields:
        opts = f.GetOptions()
        if field_behavior_pb2.REQUIRED in list(opts.Extensions[field_behavior_pb2.field_behavior]):
            out.append(f)
    return out


# -- google.api.http -----------------------------------------------------------

def http_bindings(m):
    """[(verb, path template, body)] primary first, then additional bindings."""
    if not m.options.HasExtension(annotations_pb2.http):
        return []
    h = m.options.Extensions[annotations_pb2.http]
    out = []
    for r in [h] + list(h.additional_bindings):
        kind = r.WhichOneof("pattern")
        if kind is None:
            continue
        if kind == "custom":
            out.append((r.custom.kind.upper(), r.custom.path, r.body))
        else:
            out.append((kind.upper(), getattr(r, kind), r.body))
    return out


_VAR = re.compile(r"\{([^}=]+)(?:=([^}]+))?\}")


def path_vars(template):
    """[(field path, segment template or '*')] in order of appearance."""
    return [(m.group(1), m.group(2) or "*") for m in _VAR.finditer(template)]


def seg_match(template, value):
    """Segment-wise match of a path template piece ('a/*/b/**') against a value.

    '*' = exactly one non-empty segment without '/', '**' = zero or more
    segments (any remainder).  Not regex based.
    """
    t = template.split("/")
    v = value.split("/")

    def rec(i, j):
        if i == len(t):
            return j == len(v)
        if t[i] == "**":
            # remainder (must be last by the spec, but be general)
            for k in range(j, len(v) + 1):
                if rec(i + 1, k):
                    return True
            return False
        if j >= len(v):
            return False
        if t[i] == "*":
            return v[j] != "" and rec(i + 1, j + 1)
        return t[i] == v[j] and rec(i + 1, j + 1)

    return rec(0, 0)


def get_path(msg, dotted):
    """Value of a dotted field path in a dynamic message (None if a parent is unset)."""
    cur = msg
    parts = dotted.split(".")
    for i, p in enumerate(parts):
        fd = cur.DESCRIPTOR.fields_by_name.get(p)
        if fd is None:
            raise KeyError(dotted)
        if i < len(parts) - 1:
            if not cur.HasField(p):
                return None
            cur = getattr(cur, p)
        else:
            return getattr(cur, p)


def set_path(msg, dotted, value):
    cur = msg
    parts = dotted.split(".")
    for p in parts[:-1]:
        cur = getattr(cur, p)
        cur.SetInParent()
    setattr(cur, parts[-1], value)


def expand_path(template, msg):
    """Instantiate a path template with the message's field values, or None
    when some variable is unset/empty or does not match its segment template."""
    ok = True

    def sub(m):
        nonlocal ok
        field, tmpl = m.group(1), m.group(2) or "*"
        try:
            v = get_path(msg, field)
        except KeyError:
            ok = False
            return ""
        if v is None or v == "":
            ok = False
            return ""
        v = str(v)
        if not seg_match(tmpl, v):
            ok = False
        return v

    out = _VAR.sub(sub, template)
    return out if ok else None


def sample_for_template(rng, tmpl, safe=True):
    """A value matching a segment template."""
    alphabet = ["a", "b1", "x-y", "p_q", "Z9", "v.w", "t~u"]
    out = []
    for seg in tmpl.split("/"):
        if seg == "*":
            out.append(rng.choice(alphabet))
        elif seg == "**":
            out.extend(rng.choice(alphabet) for _ in range(rng.randint(1, 3)))
        else:
            out.append(seg)
    return "/".join(out)


def lower_camel(name):
    out, up = [], False
    for ch in name:
        if ch == "_":
            up = True
        elif up:
            out.append(ch.upper())
            up = False
        else:
            out.append(ch)
    return "".join(out)


# -- http-ref: reconstruct the request from what went over HTTP -----------------

class HttpRefError(Exception):
    def __init__(self, clause, detail):
        super().__init__(f"{clause}: {detail}")
        self.clause, self.detail = clause, detail


def template_regex(template):
    """Regex for a google.api.http path template (reference implementation:
    '*' one segment, '**' any remainder, literals exact, verb suffix literal)."""
    out, pos = [], 0
    for m in _VAR.finditer(template):
        out.append(re.escape(template[pos:m.start()]))
        pat = m.group(2) or "*"
        segs = []
        for s in pat.split("/"):
            segs.append("[^/]+" if s == "*" else (".*" if s == "**" else re.escape(s)))
        out.append("(?P<v%d>%s)" % (len([x for x in out if x.startswith("(?P<")]), "/".join(segs)))
        pos = m.end()
    out.append(re.escape(template[pos:]))
    lit = "".join(out).replace(re.escape("*"), "[^/]+")
    return re.compile("^" + lit + "$")


def match_binding(template, path):
    m = template_regex(template).match(path)
    if not m:
        return None
    names = [v for v, _ in path_vars(template)]
    return {n: m.group("v%d" % i) for i, n in enumerate(names)}


def choose_binding(bindings, msg):
    """Index of the first binding whose variables are all set (truthy) and
    match their templates, with the expanded path; None if none matches."""
    for i, (verb, tmpl, body) in enumerate(bindings):
        p = expand_path(tmpl, msg)
        if p is None:
            continue
        vals = [get_path(msg, f) for f, _ in path_vars(tmpl)]
        if not all(vals):
            continue
        return i, p
    return None


def _field_by_segment(desc, seg):
    for f in desc.fields:
        if f.name == seg or f.json_name == seg:
            return f
    return None


def query_to_message(model, req_type, pairs):
    """parse_qsl pairs -> message, type-directed by the input descriptors."""
    from google.protobuf import json_format
    desc = model.desc(req_type)
    tree = {}
    for key, val in pairs:
        cur_d, cur_t = desc, tree
        segs = key.split(".")
        for i, seg in enumerate(segs):
            f = _field_by_segment(cur_d, seg)
            if f is None:
                raise HttpRefError("query-key-unknown", f"{key!r}: segment {seg!r} is neither a proto field name nor its lowerCamel form in {cur_d.full_name}")
            last = i == len(segs) - 1
            if not last:
                if f.type != FD.TYPE_MESSAGE or f.label == FD.LABEL_REPEATED:
                    raise HttpRefError("query-key-unknown", f"{key!r}: {seg!r} is not a singular message")
                cur_t = cur_t.setdefault(f.name, {})
                if not isinstance(cur_t, dict):
                    raise HttpRefError("query-key-conflict", key)
                cur_d = f.message_type
            else:
                v = val
                leaf_t = f.type
                if f.type == FD.TYPE_MESSAGE:
                    n = f.message_type.full_name
                    if n == "google.protobuf.BoolValue":
                        leaf_t = FD.TYPE_BOOL
                    elif not n.startswith("google.protobuf."):
                        raise HttpRefError("query-key-unknown", f"{key!r}: message-typed leaf {n}")
                if leaf_t == FD.TYPE_BOOL:
                    if val not in ("true", "false"):
                        raise HttpRefError("query-value", f"{key}={val!r}: boolean must be true/false")
                    v = val == "true"
                if f.label == FD.LABEL_REPEATED:
                    cur_t.setdefault(f.name, []).append(v)
                else:
                    if f.name in cur_t:
                        raise HttpRefError("query-key-duplicate", key)
                    cur_t[f.name] = v
    m = model.new(req_type)
    try:
        json_format.ParseDict(tree, m)
    except Exception as e:  # noqa
        raise HttpRefError("query-value", f"{type(e).__name__}: {e}")
    return m, tree


def leaves(msg, prefix=""):
    """Set of dotted leaf paths that are set in msg (maps/repeated count as one leaf)."""
    out = set()
    for fd, v in msg.ListFields():
        p = prefix + fd.name
        if fd.type == FD.TYPE_MESSAGE and fd.label != FD.LABEL_REPEATED and not fd.message_type.full_name.startswith("google.protobuf."):
            out |= leaves(v, p + ".")   # an empty sub-message carries no leaf
        else:
            out.add(p)
    return out


# -- AIP-4222 routing reference ---------------------------------------------------

def routing_params(m):
    if not m.options.HasExtension(routing_pb2.routing):
        return None
    return [(p.field, p.path_template) for p in m.options.Extensions[routing_pb2.routing].routing_parameters]


def _routing_segments(tmpl):
    """[(segment pattern, in_capture)], key  for a template with <= 1 named segment."""
    m = re.search(r"\{([^}=]+)(?:=([^}]*))?\}", tmpl)
    if not m:
        return [(s, False) for s in tmpl.split("/")], None
    key, sub = m.group(1), (m.group(2) if m.group(2) is not None else "*")
    pre, post = tmpl[:m.start()], tmpl[m.end():]
    segs = []
    if pre:
        segs += [(s, False) for s in pre.rstrip("/").split("/")]
    segs += [(s, True) for s in sub.split("/")]
    if post:
        segs += [(s, False) for s in post.lstrip("/").split("/")]
    return segs, key


def routing_capture(tmpl, value):
    """(key, captured text) if value matches the template completely, else (key, None).
    '*' = one non-empty segment, '**' = zero or more segments."""
    segs, key = _routing_segments(tmpl)
    v = value.split("/")

    def rec(i, j, cap):
        if i == len(segs):
            return cap if j == len(v) else None
        pat, incap = segs[i]
        if pat == "**":
            for k in range(j, len(v) + 1):
                r = rec(i + 1, k, cap + (v[j:k] if incap else []))
                if r is not None:
                    return r
            return None
        if j >= len(v):
            return None
        if pat == "*":
            if v[j] == "":
                return None
        elif pat != v[j]:
            return None
        return rec(i + 1, j + 1, cap + ([v[j]] if incap else []))

    cap = rec(0, 0, [])
    if cap is None:
        return key, None
    return key, "/".join(cap)


def routing_expected(msg, params):
    out = {}
    for field, tmpl in params:
        v = get_path(msg, field)
        if not v:
            continue
        if not tmpl:
            out[field] = v
            continue
        key, cap = routing_capture(tmpl, v)
        if cap:
            out[key or field] = cap
    return out


def implicit_expected(msg, m):
    """Pairs for every variable of the first HTTP pattern (get, put, post, delete, patch, custom)."""
    if not m.options.HasExtension(annotations_pb2.http):
        return None
    h = m.options.Extensions[annotations_pb2.http]
    for path in (h.get, h.put, h.post, h.delete, h.patch, h.custom.path):
        if path:
            out = {}
            for var, _ in path_vars(path):
                v = get_path(msg, var)
                out[var] = "" if v is None else (str(v).lower() if isinstance(v, bool) else str(v))
            return out
    return None
