"""Entry point of the fresh interpreter that executes emitted code.

usage: python -m vlib.runner <check module> <script.json> <out.json>
Calls <check module>.in_runner(script) and dumps what it returns.  Judging is
done elsewhere (offline) from the dumped events.
"""
import importlib
import json
import sys
import traceback


def main():
    modname, sp, op = sys.argv[1:4]
    with open(sp) as fh:
        script = json.load(fh)
    try:
        mod = importlib.import_module(modname)
        out = mod.in_runner(script)
    except BaseException as e:  # noqa
        out = {"runner_crash": {"type": type(e).__name__, "msg": str(e)[:2000],
                                "tb": traceback.format_exc()[-6000:]}}
    with open(op, "w") as fh:
        json.dump(out, fh)


if __name__ == "__main__":
    main()
    sys.stdout.flush()
    import os
    os._exit(0)  # do not wait for grpc/aio threads
