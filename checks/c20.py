"""C20 — comments reach docstrings intact; whitespace clean-up never changes code meaning."""
import ast
import glob
import json
import os
import random
import subprocess

from vlib import apigen, build, pipeline, rdm

ID = "C20"
LEVEL = "exploration"
RULE = ("three monitors: (1) icontract post-conditions on the real wrap / rst / fix_whitespace, evaluated on every call the generator "
        "makes while generating commented APIs (in situ, with the widths/offsets/indents the templates really use) and on direct fuzz "
        "(texts from a grammar of words, punctuation, blank lines, list markers, colons, tabs, space runs, long tokens, quotes, "
        "backslashes x widths/indents/offsets; sources from the repository's golden files and from a blank-line/indentation layout "
        "grammar); (2) differential: the same API generated with hostile plain comments and without comments must give identical ASTs "
        "once docstrings are removed; (3) the words of each comment must appear in order in __doc__ of the generated class/method; "
        "evaluations = contract evaluations + modules compared + docstrings checked; distinct = distinct (function, text-feature set, "
        "width class) contract evaluations that held plus distinct hostile-comment classes that held")
ASSUMPTIONS = ["the markdown (pandoc) branch of rst() is out of reach (identity stand-in): only the properties of its result that do not "
               "depend on the conversion are checked (no trailing quote / triple quote)", "icontract evaluates after the call, in the calling thread"]
CASE_TIMEOUT = 900
PARALLEL = 12

WORDS = ["the", "resource", "name", "of", "a", "shelf", "to", "retrieve", "Required.", "Optional.", "value", "must", "be", "between", "0", "and",
         "100", "inclusive", "see", "https://cloud.google.com/apis/design/resource-names", "e.g.", "projects/my-project/locations/us-central1",
         "format:", "field-mask", "state-of-the-art", "It's", "naïve", "café", "Ω", "x", "supercalifragilisticexpialidociousandthensomemoretomakeitlong",
         "(deprecated)", "50%", "a/b/c", "key=value", "<b>bold</b>", "C:\\path\\to", "\\n", "\\d+", "\\u00e9", "\\N", "don't", '"quoted"', "'single'",
         "end.", "Note:", "TODO", "i.e.", "etc.", "1.", "2)", "-", "+", "--flag", "~", "#hash", "$var", "@user", "^caret", "&amp;", "{curly}", "semi;colon"]
MARKUP_WORDS = ["`code`", "*emphasis*", "snake_case_name", "[link]", "a|b", "[text](http://x.y)"]


def floors(tier):
    k = 1 if tier == "quick" else 8
    return {"contract:wrap": 15000 * k, "contract:rst_plain": 3000 * k, "contract:fix_whitespace": 1500 * k, "in_situ:wrap": 3000 * k,
            "in_situ:rst_plain": 1500 * k, "in_situ:fix_whitespace": 500 * k, "ws_sources_parsed": 1000 * k, "differential_modules": 300 * k,
            "docstrings_checked": 120 * k, "hostile_classes": 8}


def plan(seed, tier):
    nc = 6 if tier == "quick" else 40
    nd = 12 if tier == "quick" else 72
    cases = [{"id": f"contracts-{seed}-{i}", "kind": "contracts", "seed": seed * 100003 + i, "tier": tier} for i in range(nc)]
    cases += [{"id": f"diff-{seed}-{i}", "kind": "diff", "seed": seed * 100003 + 4000 + i, "hostile": HOSTILE[i % len(HOSTILE)][0]} for i in range(nd)]
    return cases


# -- text grammar ---------------------------------------------------------------

def rand_text(rng, markup=False, tabs=False, hostile=None):
    paras = []
    for _ in range(rng.randint(1, 4)):
        kind = rng.choice(["prose", "prose", "list", "colon-list", "colon-prose", "short-lines", "numbered"])
        ws = WORDS + (MARKUP_WORDS if markup else [])

        def line(n):
            sep = lambda: rng.choice([" ", " ", " ", "  ", "   "] + (["\t", " \t "] if tabs else []))  # noqa
            out = ""
            for i in range(n):
                out += (sep() if i else "") + rng.choice(ws)
            return out

        if kind == "prose":
            lines = [line(rng.randint(1, 14)) for _ in range(rng.randint(1, 5))]
        elif kind == "list":
            lines = [rng.choice(["- ", "+ "]) + line(rng.randint(1, 12)) for _ in range(rng.randint(1, 4))]
        elif kind == "numbered":
            lines = [f"{i + 1}. " + line(rng.randint(1, 16)) for i in range(rng.randint(1, 3))]
        elif kind == "colon-list":
            lines = [line(rng.randint(2, 6)) + ":"] + ["- " + line(rng.randint(1, 10)) for _ in range(rng.randint(1, 3))]
        elif kind == "colon-prose":
            lines = [line(rng.randint(1, 5)) + ":"] + [line(rng.randint(1, 10)) for _ in range(rng.randint(1, 3))]
        else:
            lines = [line(rng.randint(1, 3)) for _ in range(rng.randint(2, 5))]
        # protoc keeps one leading space on continuation lines of a comment
        # ... and whatever blanks the author left at the end of a line
        trail = rng.random() < 0.25
        paras.append("\n".join((" " if i and rng.random() < 0.7 else "") + x +
                               (rng.choice([" ", "  ", "\t" if tabs else " "]) if trail and rng.random() < 0.5 else "")
                               for i, x in enumerate(lines)))
    text = ("\n\n" if rng.random() < 0.7 else "\n").join(paras)
    if rng.random() < 0.12:
        # detached comments reach wrap() unstripped: the text may start with a run of blanks or a tab
        text = rng.choice(["  ", "   ", "    ", "\t" if tabs else "     "]) + text
    if hostile:
        text = hostile(rng, text)
    return text


HOSTILE = [
    ("triple-double-quote", lambda rng, t: t + ' see """ here'),
    ("trailing-double-quote", lambda rng, t: t.rstrip() + ' "last"'),
    ("trailing-backslash", lambda rng, t: t.rstrip() + " path\\"),
    ("triple-single-quote", lambda rng, t: "''' " + t + " '''"),
    ("backslash-escapes", lambda rng, t: t + " \\x \\u12 \\N{x} \\777 \\"),
    ("only-quote", lambda rng, t: '"'),
    ("quote-then-newline", lambda rng, t: t.rstrip() + ' "end"\n'),
    ("leading-quote", lambda rng, t: '"""' + t),
    ("curly-and-percent", lambda rng, t: t + " {0} %s %(x)d {{x}}"),
    ("hash-and-decorator-lines", lambda rng, t: t + "\n\n# not a comment\n@not_a_decorator\ndef not_code():\n    pass"),
    ("unicode-separators", lambda rng, t: t + " line\u2028sep para\u2029sep \x0b \x0c"),
    ("detached-trailing-quote", lambda rng, t: t.rstrip() + ' "x"'),
]


def commented_api(rng, name, text_fn, detached=False):
    api = apigen.conventional(rng, name, {"version": "v1", "ns": ["vp"], "exotic": False, "reserved": False, "shuffle_numbers": False})
    texts = {}

    def commenter(kind, fq):
        if rng.random() < 0.2:
            return None
        t = text_fn()
        texts[(kind, fq)] = t
        return t

    for f in api.files:
        build.add_comments(f.pb, commenter)
        if detached:
            for loc in f.pb.source_code_info.location:
                if rng.random() < 0.3:
                    loc.leading_detached_comments.append(loc.leading_comments + "\n")
                    loc.leading_comments = ""
    api.options = ["transport=grpc+rest"]
    return api, texts


# -- case kinds -------------------------------------------------------------------

def run_case(case):
    if case["kind"] == "contracts":
        return run_contracts(case)
    return run_diff(case)


def run_contracts(case):
    scratch = pipeline.case_scratch("c20")
    rng = random.Random(case["seed"])
    reqs = []
    n_api = 2
    for i in range(n_api):
        api, _ = commented_api(rng, f"c{case['seed'] % 100000}x{i}", lambda: rand_text(rng, markup=rng.random() < 0.15))
        req = api.request(scratch)
        p = os.path.join(scratch, f"req{i}.bin")
        with open(p, "wb") as fh:
            fh.write(req.SerializeToString())
        reqs.append(p)
    if case["seed"] % 3 == 0:
        from google.protobuf.compiler import plugin_pb2
        with open(os.path.join(pipeline.REPO, "tests/unit/configurable_snippetgen/resources/speech/request.desc"), "rb") as fh:
            sp = plugin_pb2.CodeGeneratorRequest.FromString(fh.read())
        sp.parameter = "transport=grpc+rest"
        p = os.path.join(scratch, "speech.bin")
        with open(p, "wb") as fh:
            fh.write(sp.SerializeToString())
        reqs.append(p)
    nf = 3500 if case["tier"] == "quick" else 6000
    wrap_fuzz, rst_fuzz = [], []
    for _ in range(nf):
        width = rng.choice([10, 20, 40, 72, 80, 100])
        indent = rng.choice([0, 0, 4, 8, 12, 16])
        indent = min(indent, width - 8)
        offset = rng.choice([None, indent, indent + 3, 0, min(width - 1, indent + 20)])
        tabs = rng.random() < 0.12
        wrap_fuzz.append([rand_text(rng, tabs=tabs), width, offset, indent])
    for _ in range(nf // 4):
        width = rng.choice([40, 72, 80])
        indent = rng.choice([0, 4, 8, 12, 16])
        hostile = rng.choice(HOSTILE + [None] * 6)
        rst_fuzz.append([rand_text(rng, markup=rng.random() < 0.1, hostile=hostile[1] if hostile else None), width, indent,
                         rng.choice([None, None, True, False])])
    ws_fuzz = []
    goldens = sorted(glob.glob(os.path.join(pipeline.REPO, "tests/integration/goldens/**/*.py"), recursive=True))
    rng.shuffle(goldens)
    for g in goldens[: 40 if case["tier"] == "quick" else 120]:
        try:
            src = open(g, encoding="utf-8").read()
        except OSError:
            continue
        ws_fuzz.append(perturb_layout(rng, src))
    for _ in range(150 if case["tier"] == "quick" else 400):
        ws_fuzz.append(layout_source(rng))
    spec = {"requests": reqs, "wrap_fuzz": wrap_fuzz, "rst_fuzz": rst_fuzz, "ws_fuzz": ws_fuzz}
    sp, op = os.path.join(scratch, "spec.json"), os.path.join(scratch, "contracts.json")
    with open(sp, "w") as fh:
        json.dump(spec, fh)
    env = pipeline.gen_env()
    env["PYTHONPATH"] = pipeline.REPO + os.pathsep + pipeline.VERIF
    try:
        p = subprocess.run([pipeline.PY, "-m", "vlib.contracts", op, sp], env=env, capture_output=True, timeout=800, cwd=scratch)
    except subprocess.TimeoutExpired:
        return {"verdict": "inconclusive", "why": "contract run timeout"}
    if not os.path.exists(op):
        return {"verdict": "inconclusive", "why": "contract run died: " + p.stderr.decode("utf-8", "replace")[-1200:]}
    with open(op) as fh:
        log = json.load(fh)
    counters = {"contract:" + k: v for k, v in log["evaluations"].items()}
    counters.update({"in_situ:" + k: v for k, v in log["in_situ"].items()})
    counters["ws_sources_parsed"] = log["ws_parsed"]
    viol, sigs = [], set()
    for v in log["violations"]:
        text = v.get("text") or v.get("code") or ""
        mech = {"contract": v["contract"], "in_situ": v["in_situ"], "has_tab": bool(v.get("has_tab")) or "\t" in text,
                "has_triple_quote": bool(v.get("has_triple_quote")) or '"""' in text, "trailing_quote_then_space": text.rstrip() != text and text.rstrip().endswith('"')}
        viol.append({"clause": f"{v['contract']}:{v['clause']}", "detail": {k: x for k, x in v.items() if k not in ("contract", "clause")}, "mech": mech})
    for e in log["generation_errors"]:
        viol.append({"clause": "generation-fails", "detail": e, "mech": {}})
    for k, n in log["widths_seen"].items():
        sigs.add("wrap-in-situ|" + k)
    for fn in ("wrap", "rst_plain", "fix_whitespace"):
        if log["evaluations"].get(fn):
            sigs.add("contract|" + fn)
    total = sum(log["evaluations"].values())
    return {"verdict": "violated" if viol else "held", "violations": pipeline.diverse(viol, 40), "evaluations": total, "nontrivial_sigs": sorted(sigs),
            "counters": counters,
            "sample": {"in_situ": log["in_situ"], "fuzz": {k: log["evaluations"][k] - log["in_situ"][k] for k in log["evaluations"]},
                       "template_call_shapes(width/offset/indent)": dict(list(log["widths_seen"].items())[:8]),
                       "a_fuzz_text": wrap_fuzz[0][0][:200]}}


def perturb_layout(rng, src):
    """Re-introduce what templates produce before clean-up: trailing blanks and surplus blank lines (outside of nothing in
    particular - string literals included, whose whitespace the property exempts)."""
    out = []
    for line in src.split("\n"):
        if rng.random() < 0.08:
            line = line + " " * rng.randint(1, 4)
        out.append(line)
        if line.strip() == "" and rng.random() < 0.5:
            out.extend([""] * rng.randint(1, 3))
        elif rng.random() < 0.02:
            out.extend([" " * rng.choice([0, 4, 8])] * rng.randint(1, 3))
    return "\n".join(out) + "\n" * rng.randint(0, 3)


def layout_source(rng):
    """Layout grammar: blank-line runs x indentation levels x decorators/comments/strings."""
    lines = []

    def blanks():
        for _ in range(rng.choice([0, 0, 1, 2, 3, 5])):
            lines.append(" " * rng.choice([0, 0, 4, 8, 3]))

    def block(ind, depth):
        n = rng.randint(1, 4)
        for _ in range(n):
            blanks()
            kind = rng.choice(["assign", "def", "class", "comment", "decorated", "string", "if", "call", "docstring"])
            pad = " " * ind
            trail = " " * rng.choice([0, 0, 0, 2])
            if kind == "assign":
                lines.append(f"{pad}x_{rng.randint(0, 9)} = {rng.randint(0, 99)}{trail}")
            elif kind == "comment":
                lines.append(f"{pad}# comment {rng.randint(0, 9)}{trail}")
            elif kind == "call":
                lines.append(f"{pad}print({rng.randint(0, 9)},{trail}")
                blanks()
                lines.append(f"{pad}      'continued')")
            elif kind == "string":
                lines.append(f'{pad}s = """line one{trail}')
                blanks()
                lines.append(f"{pad}  def not_code(): # inside a string")
                blanks()
                lines.append(f'{pad}    class AlsoNot: pass"""')
            elif kind == "docstring":
                lines.append(f'{pad}"""Doc.{trail}')
                blanks()
                lines.append(f"{pad}Args:")
                lines.append(f"{pad}    x (int):{trail}")
                lines.append(f'{pad}"""')
            elif depth < 3 and kind in ("def", "class", "decorated", "if"):
                if kind == "decorated":
                    lines.append(f"{pad}@decorator{trail}")
                    if rng.random() < 0.3:
                        blanks()
                    kind = "def"
                head = {"def": f"def f_{rng.randint(0, 99)}(a, b=1):", "class": f"class C_{rng.randint(0, 99)}:", "if": "if x_1:"}[kind]
                lines.append(pad + head + trail)
                block(ind + rng.choice([4, 4, 4, 2, 8]), depth + 1)
            else:
                lines.append(f"{pad}pass{trail}")

    block(0, 0)
    src = "\n".join(lines) + "\n" * rng.choice([0, 1, 2, 4])
    if rng.random() < 0.2:
        src = "\n\n" + src
    return src


def strip_docstrings(tree):
    for node in ast.walk(tree):
        if isinstance(node, (ast.Module, ast.ClassDef, ast.FunctionDef, ast.AsyncFunctionDef)):
            if node.body and isinstance(node.body[0], ast.Expr) and isinstance(getattr(node.body[0], "value", None), ast.Constant) \
                    and isinstance(node.body[0].value.value, str):
                node.body = node.body[1:] or [ast.Pass()]
    return tree


def run_diff(case):
    scratch = pipeline.case_scratch("c20")
    hostile = dict(HOSTILE)[case["hostile"]]
    name = "d%d" % (case["seed"] % 100000)
    rng = random.Random(case["seed"])
    detached = case["hostile"].startswith("detached") or case["seed"] % 4 == 0
    api_c, texts = commented_api(rng, name, lambda: rand_text(rng, hostile=hostile if rng.random() < 0.6 else None), detached=detached)
    rng = random.Random(case["seed"])
    api_n, _ = commented_api(rng, name, lambda: rand_text(rng, hostile=hostile if rng.random() < 0.6 else None), detached=detached)
    for f in api_n.files:
        f.pb.ClearField("source_code_info")
    mech = {"hostile": case["hostile"], "detached": detached,
            "comment_has_triple_double_quote": case["hostile"] in ("triple-double-quote", "leading-quote")}
    sub_c, sub_n = os.path.join(scratch, "c"), os.path.join(scratch, "n")
    os.makedirs(sub_c)
    os.makedirs(sub_n)
    req_c, g_c, lib_c = pipeline.build_and_generate(api_c, sub_c)
    req_n, g_n, lib_n = pipeline.build_and_generate(api_n, sub_n)
    if not g_n.ok:
        return {"verdict": "inconclusive", "why": "uncommented API failed to generate: " + str(g_n.failure())[:300]}
    if not g_c.ok:
        return {"verdict": "violated", "evaluations": 1, "counters": {},
                "violations": [{"clause": "comments-break-generation", "detail": g_c.failure(), "mech": mech}]}
    viol, counters = [], {"differential_modules": 0, "docstrings_checked": 0, "hostile_classes": 0}
    fc = {f.name: f.content for f in g_c.response.file}
    fn = {f.name: f.content for f in g_n.response.file}
    if set(fc) != set(fn):
        viol.append({"clause": "comments-change-file-set", "detail": sorted(set(fc) ^ set(fn))[:6], "mech": mech})
    for n in sorted(set(fc) & set(fn)):
        if not n.endswith(".py"):
            continue
        counters["differential_modules"] += 1
        try:
            a = ast.dump(strip_docstrings(ast.parse(fc[n])))
        except SyntaxError as e:
            line = (fc[n].splitlines()[e.lineno - 1] if e.lineno and e.lineno <= len(fc[n].splitlines()) else "")
            viol.append({"clause": "comment-breaks-module-syntax", "detail": {"file": n, "line": e.lineno, "msg": e.msg, "text": line[:160]},
                         "mech": {**mech, "file_kind": "samples" if n.startswith("samples/") else ("tests" if n.startswith("tests/") else "library")}})
            continue
        b = ast.dump(strip_docstrings(ast.parse(fn[n])))
        if a != b:
            viol.append({"clause": "comment-changes-code", "detail": {"file": n}, "mech": mech})
    # surface: words of the comment appear, in order, in __doc__
    if not viol:
        probes = []
        pkg = api_c.info["pkg"]
        for (kind, fq), t in texts.items():
            if kind in ("message", "service", "method", "enum") and t.strip():
                probes.append({"kind": kind, "fq": fq, "words": t.split()})
        script = {"root_pkg": apigen.lib_root(api_c.info, api_c.options), "pkg": pkg, "probes": probes}
        ev, rc, err = pipeline.run_runner("checks.c20", script, lib_c, timeout=200)
        if ev is None or "runner_crash" in ev or "library_import_error" in ev:
            return pipeline.runner_failed_result(ev, rc, err, api_c, mech)
        for pr, r in zip(probes, ev["probes"]):
            if r.get("skip"):
                continue
            counters["docstrings_checked"] += 1
            if not r["found"]:
                viol.append({"clause": "comment-words-missing-from-docstring", "detail": {"entity": pr["fq"], "kind": pr["kind"],
                                                                                           "missing_from": r.get("at"), "doc": (r.get("doc") or "")[:300]},
                             "mech": {**mech, "kind": pr["kind"]}})
    if not viol:
        counters["hostile_classes"] = 1
    return {"verdict": "violated" if viol else "held", "violations": pipeline.diverse(viol, 40), "evaluations": counters["differential_modules"] + counters["docstrings_checked"],
            "nontrivial_sigs": [] if viol else ["hostile|" + case["hostile"]], "counters": counters,
            "sample": {"hostile": case["hostile"], "modules_compared": counters["differential_modules"], "docstrings_checked": counters["docstrings_checked"],
                       "a_comment": next(iter(texts.values()), "")[:200]}}


def in_runner(script):
    import importlib
    import re
    root = importlib.import_module(script["root_pkg"])
    out = []
    for pr in script["probes"]:
        rel = pr["fq"][len(script["pkg"]) + 1:].split(".")
        obj = None
        try:
            if pr["kind"] in ("message", "enum"):
                obj = root
                for p in rel:
                    obj = getattr(obj, p)
            elif pr["kind"] == "service":
                obj = getattr(root, rel[0] + "Client")
            elif pr["kind"] == "method":
                from vlib.rdm import py_method
                obj = getattr(getattr(root, rel[0] + "Client"), py_method(rel[1]))
        except AttributeError:
            out.append({"skip": True})
            continue
        doc = obj.__doc__ or ""
        # the identity pandoc stand-in and rst() may append a period after a trailing quote and re-flow whitespace
        hay = doc.split()
        i = 0
        found = True
        at = None
        for w in pr["words"]:
            while i < len(hay) and hay[i] != w and hay[i] != w + ".":
                i += 1
            if i >= len(hay):
                found = False
                at = w
                break
            i += 1
        out.append({"found": found, "at": at, "doc": doc[:400]})
    return {"probes": out}
