"""C17 — mixin RPCs are exposed exactly as configured in the service YAML."""
import itertools
import json
import random
import urllib.parse

from google.protobuf import json_format

from vlib import apigen, pipeline, rdm, refs
from vlib.apigen import MIXIN_METHODS, MIXIN_RULES

ID = "C17"
LEVEL = "exploration"
RULE = ("cases = every subset of {Operations, IAMPolicy, Locations} listed under apis x rule sets {all, some, none} (rule paths carry a "
        "per-case prefix) x transports, plus APIs that define one or more IAM RPCs themselves and the add-iam-methods option (alone, next to other mixins and together with "
        "an IAMPolicy entry in the YAML); the "
        "set of mixin methods on the sync and asyncio clients is compared with {methods of listed APIs that have a rule}; every "
        "exposed mixin is called over sync gRPC, asyncio gRPC and REST and the recorded path, request, routing header, verb, URL "
        "and body are judged against the standard descriptors and the YAML rule; distinct = distinct (mixin subset, rule mode, "
        "override, method, transport) that held")
ASSUMPTIONS = ["when the API defines an IAM RPC itself, which of the remaining IAM mixins survive is not judged (the statement only says "
               "they yield to same-named RPCs); Operations and Locations mixins must be unaffected"]
CASE_TIMEOUT = 300
PARALLEL = 12


def floors(tier):
    k = 1 if tier == "quick" else 4
    return {"surface_checks": 600 * k, "mixin_calls": 500 * k, "transport:rest": 70 * k, "transport:aio": 150 * k, "absent_confirmed": 250 * k,
            "override_cases": 4 * k, "override_cases_with_internal_own_rpcs": 3 * k, "add_iam_cases": 5 * k, "add_iam_with_iam_in_yaml": 2 * k, "absent_although_rules_present": 20 * k, "rest_requests_reconstructed": 60 * k, "rest_only_cases": 2 * k}


def plan(seed, tier):
    cases = []
    subsets = [list(c) for r in range(4) for c in itertools.combinations(["locations", "iam", "operations"], r)]
    reps = 1 if tier == "quick" else 5
    i = 0
    for rep in range(reps):
        for sub in subsets:
            for mode in ("all", "some", "none"):
                if not sub and mode != "all":
                    continue
                cases.append({"id": f"mix-{seed}-{i}", "seed": seed * 100003 + i, "mixins": sub, "mode": mode, "own_iam": None, "add_iam": False})
                i += 1
        # http rules present for mixin APIs that are not listed under `apis`: none of those RPCs may appear
        for sub in subsets:
            rest_ = [m for m in ("locations", "iam", "operations") if m not in sub]
            if rest_:
                cases.append({"id": f"mix-{seed}-{i}", "seed": seed * 100003 + i, "mixins": sub, "mode": "all", "own_iam": None, "add_iam": False,
                              "unlisted": rest_ if (i + rep) % 2 else rest_[-1:]})
                i += 1
        # REST as the only transport
        for sub_, mode_ in ((["locations", "iam", "operations"], "all"), (["operations", "locations"], "some"), (["iam"], "all")):
            cases.append({"id": f"mix-{seed}-{i}", "seed": seed * 100003 + i, "mixins": sub_, "mode": mode_, "own_iam": None, "add_iam": False, "rest_only": True})
            i += 1
        # the whole API in a proto sub-package
        for sub_, mode_ in ((["locations", "iam", "operations"], "all"), (["operations"], "some"), (["iam", "locations"], "some")):
            cases.append({"id": f"mix-{seed}-{i}", "seed": seed * 100003 + i, "mixins": sub_, "mode": mode_, "own_iam": None, "add_iam": False, "subpkg": True})
            i += 1
        for own in (["SetIamPolicy"], ["GetIamPolicy", "TestIamPermissions"], ["SetIamPolicy", "GetIamPolicy", "TestIamPermissions"], ["TestIamPermissions"]):
            for sub in (["iam"], ["iam", "operations"], ["locations", "iam", "operations"]):
                cases.append({"id": f"mix-{seed}-{i}", "seed": seed * 100003 + i, "mixins": sub, "mode": "all", "own_iam": own, "add_iam": False})
                i += 1
        # ... and the API's own IAM RPCs generated as internal methods (selective generation, keep-as-internal mode)
        for own, sub in ((["GetIamPolicy"], ["iam"]), (["SetIamPolicy", "GetIamPolicy", "TestIamPermissions"], ["locations", "iam", "operations"]),
                         (["TestIamPermissions", "SetIamPolicy"], ["iam", "operations"])):
            cases.append({"id": f"mix-{seed}-{i}", "seed": seed * 100003 + i, "mixins": sub, "mode": "all", "own_iam": own, "add_iam": False, "internal_own": True})
            i += 1
        # the legacy option alone, next to other mixins, and together with an IAMPolicy entry in the YAML
        for sub, mode in (([], "all"), (["locations"], "all"), (["operations"], "all"), (["iam"], "all"), (["iam"], "some"),
                          (["iam", "operations"], "all"), (["locations", "iam", "operations"], "some")):
            cases.append({"id": f"mix-{seed}-{i}", "seed": seed * 100003 + i, "mixins": sub, "mode": mode, "own_iam": None, "add_iam": True})
            i += 1
    return cases


def build_api(case):
    rng = random.Random(case["seed"])
    prefix = rng.choice(["/v1", "/v1beta1", "/v2/x", "/api/v1"])
    tr = "grpc" if case["add_iam"] else rng.choice(["grpc+rest", "grpc+rest", "rest+grpc"])
    if case.get("rest_only"):
        tr = "rest"          # a REST-only library: the mixin RPCs are there and callable all the same
    api = apigen.mixin_api(rng, "m%d" % (case["seed"] % 100000), case["mixins"], case["mode"], own_iam=case["own_iam"],
                           add_iam=case["add_iam"], transport=tr, prefix=prefix, unlisted=case.get("unlisted") or (),
                           internal_own=bool(case.get("internal_own")))
    return apigen.into_subpackage(api) if case.get("subpkg") else api


def expected_methods(api):
    exp = set()
    for meth, (mk, idx, *_rest) in MIXIN_METHODS.items():
        if mk in api.info["mixins"] and idx in api.info["rules"][mk]:
            exp.add(meth)
    return exp


def run_case(case):
    scratch = pipeline.case_scratch("c17")
    api = build_api(case)
    req, g, lib = pipeline.build_and_generate(api, scratch)
    if not g.ok:
        return pipeline.gen_failed_result(g, api, {"add_iam": case["add_iam"], "own_iam": bool(case["own_iam"])})
    # descriptors of the mixin services are in the request's dependency closure? add the installed ones
    from vlib import build
    extra = build.dep_files(["google.cloud.location.locations_pb2", "google.iam.v1.iam_policy_pb2", "google.longrunning.operations_pb2"])
    have = {p.name for p in req.proto_file}
    model = rdm.Model(list(req.proto_file) + [p for p in extra if p.name not in have])
    rng = random.Random(case["seed"] ^ 0xC17)
    exp = expected_methods(api)
    own = {rdm.snake(n) for n in api.info["own_iam"]}
    iam_names = {m for m, v in MIXIN_METHODS.items() if v[0] == "iam"}
    rest = "rest" in " ".join(api.options)
    calls = []
    callable_methods = set(exp)
    if api.info["add_iam"]:
        callable_methods |= iam_names
    if own:
        callable_methods -= iam_names
    for meth in sorted(callable_methods):
        mk, idx, path, rt_, rs_, field = MIXIN_METHODS[meth]
        sel, rule = MIXIN_RULES[mk][1][idx]
        rule = api.info["rule_by_selector"].get(sel)
        x = model.new(rt_)
        val = {"get_location": "projects/p1/locations/l1", "list_locations": "projects/p1"}.get(meth) or \
            ("projects/p1/things/t1" if mk == "iam" else ("projects/p1" if meth == "list_operations" else "projects/p1/operations/o1"))
        setattr(x, field, val)
        if meth == "test_iam_permissions":
            x.permissions.extend(["a.b.c", "d.e"])
        if meth == "list_operations":
            x.filter = "done=true"
            x.page_size = 3
        if meth == "set_iam_policy":
            x.policy.version = 3
            x.policy.etag = b"\x01\x02"
            x.update_mask.paths.extend(["bindings", "etag"])
        y = model.new(rs_)
        if rs_.endswith("Operation"):
            y.name = "projects/p1/operations/o1"
            y.done = True
        elif rs_.endswith("Policy"):
            y.version = 1
            y.etag = b"zz"
        elif rs_.endswith("Location"):
            y.name = "projects/p1/locations/l1"
            y.location_id = "l1"
        elif rs_.endswith("ListLocationsResponse"):
            y.locations.add().name = "projects/p1/locations/l9"
        elif rs_.endswith("ListOperationsResponse"):
            y.operations.add().name = "o7"
        elif rs_.endswith("TestIamPermissionsResponse"):
            y.permissions.append("a.b.c")
        has_grpc = any(o_.startswith("transport=") and "grpc" in o_ for o_ in api.options)
        for tr in (["grpc", "aio"] if has_grpc else []) + (["rest"] if rest and not api.info["add_iam"] else []):
            for form in ("message", "dict"):
                if form == "dict" and tr == "rest":
                    continue
                c = {"method": meth, "transport": tr, "form": form, "req_type": rt_, "resp_type": rs_, "path": path, "field": field,
                     "value": val, "request": rdm.b64(x.SerializeToString()), "reply": rdm.b64(y.SerializeToString()),
                     "reply_json": json_format.MessageToJson(y), "rule": rule}
                if form == "dict":
                    c["dict"] = rdm.to_py(x)
                calls.append(c)
    own_calls = []
    for n in api.info["own_iam"]:
        own_calls.append({"method": ("_" if api.info.get("internal_own") else "") + rdm.snake(n), "rpc": n})
    script = {"root_pkg": apigen.runner_root(api), "all_methods": sorted(MIXIN_METHODS), "calls": calls, "own_calls": own_calls,
              "rest": rest and not api.info["add_iam"],
              "grpc": any(o_.startswith("transport=") and "grpc" in o_ for o_ in api.options)}
    ev, rc, err = pipeline.run_runner("checks.c17", script, lib, timeout=250)
    if ev is None or "runner_crash" in ev or "library_import_error" in ev:
        return pipeline.runner_failed_result(ev, rc, err, api)
    viol, counters, sigs = [], {}, set()

    def bump(k, n=1):
        counters[k] = counters.get(k, 0) + n

    if case["own_iam"]:
        bump("override_cases")
    if case.get("internal_own"):
        bump("override_cases_with_internal_own_rpcs")
    if case["add_iam"]:
        bump("add_iam_cases")
        if "iam" in case["mixins"]:
            bump("add_iam_with_iam_in_yaml")
    tagbase = f"{'+'.join(case['mixins']) or 'none'}|{case['mode']}|own={bool(case['own_iam'])}|addiam={case['add_iam']}"
    base_mech = {"mixins": case["mixins"], "mode": case["mode"], "own_iam": bool(case["own_iam"]), "add_iam": case["add_iam"],
                 "rules_for_unlisted": sorted(api.info.get("unlisted_with_rules", []))}
    # surface
    has_grpc_ = any(o_.startswith("transport=") and "grpc" in o_ for o_ in api.options)
    if not has_grpc_:
        bump("rest_only_cases")
    for kind in (("sync", "async") if has_grpc_ else ("sync",)):
        have = set(ev["surface"][kind])
        for meth in MIXIN_METHODS:
            if meth in iam_names and (own or api.info["add_iam"]):
                if api.info["add_iam"]:
                    bump("surface_checks")
                    if meth not in have:
                        viol.append({"clause": "add-iam-method-missing", "detail": {"client": kind, "method": meth}, "mech": {**base_mech, "client": kind}})
                continue
            bump("surface_checks")
            if meth in exp and meth not in have:
                viol.append({"clause": "mixin-missing", "detail": {"client": kind, "method": meth, "mixins": case["mixins"], "rules": api.info["rules"]},
                             "mech": {**base_mech, "client": kind, "mixin": MIXIN_METHODS[meth][0]}})
            elif meth not in exp and meth in have:
                viol.append({"clause": "mixin-unexpected", "detail": {"client": kind, "method": meth, "mixins": case["mixins"], "rules": api.info["rules"]},
                             "mech": {**base_mech, "client": kind, "mixin": MIXIN_METHODS[meth][0]}})
            elif meth not in exp:
                bump("absent_confirmed")
                if MIXIN_METHODS[meth][0] in api.info.get("unlisted_with_rules", []):
                    bump("absent_although_rules_present")
    # own IAM rpcs reach the API's own service
    for oc, r in zip(own_calls, ev["own_results"]):
        want = f"/{api.info['pkg']}.Vault/{oc['rpc']}"
        for kind in ("grpc", "aio"):
            if r[kind].get("path") != want:
                viol.append({"clause": "own-iam-rpc-shadowed", "detail": {"method": oc["method"], "transport": kind, "seen": r[kind], "want": want},
                             "mech": {**base_mech}})
    # calls
    sample = None
    for c, r in zip(calls, ev["results"]):
        bump("mixin_calls")
        bump("transport:" + c["transport"])
        mech = {**base_mech, "transport": c["transport"], "method": c["method"]}

        def bad(clause, detail):
            viol.append({"clause": clause, "detail": {"method": c["method"], "transport": c["transport"], "form": c["form"], "why": detail}, "mech": mech})

        if r.get("error"):
            bad("client-raised", r["error"])
            continue
        sent = model.parse(c["req_type"], rdm.unb64(c["request"]))
        e = r["event"]
        if c["transport"] in ("grpc", "aio"):
            if e["method"] != c["path"]:
                bad("grpc-path", f"{e['method']} != {c['path']}")
            got = model.parse(c["req_type"], rdm.unb64(e["requests"][0]))
            if got != sent:
                bad("request-differs", f"{str(got)[:200]!r} vs {str(sent)[:200]!r}")
            hdr = [v for k, v in e["metadata"] if k.lower() == "x-goog-request-params"]
            if not hdr or dict(urllib.parse.parse_qsl(hdr[0])) != {c["field"]: c["value"]}:
                bad("routing-header", f"{hdr} expected {c['field']}={c['value']}")
        else:
            rule = c["rule"]
            verb = [k for k in rule if k in ("get", "post", "put", "delete", "patch")][0]
            tmpl = rule[verb]
            want_path = tmpl.replace("{%s=" % c["field"], "{").split("{")[0] + c["value"] + tmpl.split("}")[-1]
            if e["verb"] != verb.upper() or urllib.parse.unquote(e["path"]) != want_path:
                bad("rest-verb-or-path", f"{e['verb']} {e['path']} expected {verb.upper()} {want_path}")
            body = rdm.unb64(e["body"])
            bf = rule.get("body")
            if not bf and body not in (b"", b"{}"):
                bad("rest-body", f"unexpected body {body[:120]!r} for a rule without body")
            # reconstruction: path variable + query string + body (the whole request for "*", the named field otherwise) = the request
            try:
                bm = model.new(c["req_type"])
                qd = {}
                for k, v in urllib.parse.parse_qsl(e.get("query") or "", keep_blank_values=True):
                    if k.startswith("$"):
                        continue
                    cur = qd
                    parts = k.split(".")
                    for pp in parts[:-1]:
                        cur = cur.setdefault(pp, {})
                    if parts[-1] in cur:
                        cur[parts[-1]] = (cur[parts[-1]] if isinstance(cur[parts[-1]], list) else [cur[parts[-1]]]) + [v]
                    else:
                        cur[parts[-1]] = v

                def fix_repeated(d, desc):
                    for k, v in list(d.items()):
                        fd = next((f for f in desc.fields if f.json_name == k or f.name == k), None)
                        if fd is None:
                            continue
                        if fd.label == fd.LABEL_REPEATED and not isinstance(v, list):
                            d[k] = [v]
                        elif isinstance(v, dict) and fd.message_type is not None:
                            fix_repeated(v, fd.message_type)
                fix_repeated(qd, bm.DESCRIPTOR)
                json_format.ParseDict(qd, bm)
                if bf == "*":
                    json_format.Parse(body.decode("utf-8") or "{}", bm)
                elif bf:
                    if body not in (b"", b"{}") or sent.HasField(bf):
                        json_format.Parse(body.decode("utf-8") or "{}", getattr(bm, bf))
                    if any(k in qd for k in (bf, bf.split("_")[0] + "".join(w.capitalize() for w in bf.split("_")[1:]))):
                        bad("rest-query", f"the body field {bf!r} also travels in the query: {e.get('query')!r}")
                setattr(bm, c["field"], c["value"])
                if bm != sent:
                    bump("rest_reconstruction_differs")
                    bad("rest-body" if bf == "*" else "rest-query-or-body", f"query {e.get('query')!r} + body {body[:160]!r} do not reconstruct the request "
                        f"(rule body: {bf!r}); rebuilt {str(bm)[:160]!r}")
                else:
                    bump("rest_requests_reconstructed")
            except Exception as ex:  # noqa
                bad("rest-body", f"{type(ex).__name__}: {ex}: query {e.get('query')!r} body {body[:120]!r}")
        # reply
        if c["resp_type"] == "google.protobuf.Empty":
            if r["returned"] != [None, None]:
                bad("reply", f"expected None, got {r['returned']}")
        else:
            tname, data = r["returned"]
            if tname != c["resp_type"]:
                bad("reply-type", f"{tname} != {c['resp_type']}")
            elif model.parse(c["resp_type"], rdm.unb64(data)) != model.parse(c["resp_type"], rdm.unb64(c["reply"])):
                bad("reply-content", "differs")
        sigs.add(f"{tagbase}|{c['method']}|{c['transport']}")
        if sample is None and c["transport"] == "rest":
            sample = {"method": c["method"], "rule": c["rule"], "http": {"verb": e["verb"], "path": e["path"], "body": rdm.unb64(e["body"]).decode()[:100]}}
    if not calls:
        sigs.add(tagbase + "|no-mixins-exposed")
    return {"verdict": "violated" if viol else "held", "violations": pipeline.diverse(viol, 40), "evaluations": counters.get("mixin_calls", 0) + counters.get("surface_checks", 0),
            "nontrivial_sigs": sorted(sigs), "counters": counters,
            "sample": sample or {"mixins": case["mixins"], "mode": case["mode"], "surface_sync": ev["surface"]["sync"]}}


# ---------------------------------------------------------------------------

def in_runner(script):
    import asyncio
    from vlib import rt
    from vlib.rdm import decode_py
    lib = rt.Lib(script["root_pkg"])
    srv = rt.GrpcServer()
    http = rt.HttpServer()
    C = lib.client_cls("Vault")
    A = getattr(lib.root, "VaultAsyncClient", None) or getattr(lib.root, "BaseVaultAsyncClient", None)
    surface = {"sync": [m for m in script["all_methods"] if hasattr(C, m)], "async": [m for m in script["all_methods"] if A is not None and hasattr(A, m)]}
    gc = lib.grpc_client("Vault", srv.target) if script.get("grpc", True) else None
    rc = lib.rest_client("Vault", http.host) if script["rest"] else None
    results = [None] * len(script["calls"])
    own_results = [{"grpc": {}, "aio": {}} for _ in script["own_calls"]]

    def arg(c):
        return decode_py(c["dict"]) if c["form"] == "dict" else lib.mk(c["req_type"], rt.unb64(c["request"]))

    for i, c in enumerate(script["calls"]):
        if c["transport"] == "aio":
            continue
        o = {}
        if c["transport"] == "grpc":
            srv.script(c["path"], [{"payloads": [c["reply"]]}])
            server, client = srv, gc
        else:
            http.script([{"status": 200, "body": c["reply_json"]}])
            server, client = http, rc
        mark = server.mark()
        try:
            ret = getattr(client, c["method"])(request=arg(c))
            o["returned"] = list(rt.ser(ret))
        except BaseException as e:  # noqa
            o["error"] = rt.exc_info(e)
        evs = server.since(mark)
        if evs:
            o["event"] = evs[0]
        elif "error" not in o:
            o["error"] = {"type": "NoEvent", "msg": "nothing reached the server"}
        results[i] = o
    for j, oc in enumerate(script["own_calls"] if gc is not None else []):
        mark = srv.mark()
        try:
            getattr(gc, oc["method"])(request={"resource": "things/t1"})
        except BaseException as e:  # noqa
            own_results[j]["grpc"]["error"] = rt.exc_info(e)
        evs = srv.since(mark)
        if evs:
            own_results[j]["grpc"]["path"] = evs[0]["method"]

    async def amain():
        if not script.get("grpc", True):
            return
        ac = lib.aio_client("Vault", srv.target)
        for i, c in enumerate(script["calls"]):
            if c["transport"] != "aio":
                continue
            o = {}
            srv.script(c["path"], [{"payloads": [c["reply"]]}])
            mark = srv.mark()
            try:
                ret = await getattr(ac, c["method"])(request=arg(c))
                o["returned"] = list(rt.ser(ret))
            except BaseException as e:  # noqa
                o["error"] = rt.exc_info(e)
            evs = srv.since(mark)
            if evs:
                o["event"] = evs[0]
            elif "error" not in o:
                o["error"] = {"type": "NoEvent", "msg": "nothing reached the server"}
            results[i] = o
        for j, oc in enumerate(script["own_calls"]):
            mark = srv.mark()
            try:
                await getattr(ac, oc["method"])(request={"resource": "things/t1"})
            except BaseException as e:  # noqa
                own_results[j]["aio"]["error"] = rt.exc_info(e)
            evs = srv.since(mark)
            if evs:
                own_results[j]["aio"]["path"] = evs[0]["method"]

    asyncio.run(amain())
    srv.stop()
    return {"surface": surface, "results": results, "own_results": own_results}
