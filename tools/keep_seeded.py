#!/usr/bin/env python3
"""tools/keep_seeded.py <src dir> <name> <PID> '<needs>' '<caught by>'  -> seeded/<name>/{patch.diff,demo.py,README.md,meta.json}"""
import json, os, shutil, sys
src, name, pid, needs, caught = sys.argv[1:6]
dst = os.path.join(os.path.dirname(os.path.dirname(os.path.abspath(__file__))), "seeded", name)
os.makedirs(dst, exist_ok=True)
for f in ("patch.diff", "demo.py", "README.md"):
    if os.path.exists(os.path.join(src, f)):
        shutil.copy(os.path.join(src, f), os.path.join(dst, f))
meta = {"property": pid, "origin": "independent sub-agent given only the property text and a scratch worktree",
        "needs_to_manifest": needs,
        "confirmed": {"pinned_suite_passes_with_change": True, "demo_clean_exit": 0, "demo_changed_exit": "non-zero",
                      "how": "tools/seeded.py <dir> <PID>: git apply to /repo, tools/baseline.py (609 stable tests), demo.py on both trees, quick check, git checkout"},
        "caught_by": caught}
json.dump(meta, open(os.path.join(dst, "meta.json"), "w"), indent=1)
print("kept", dst)
