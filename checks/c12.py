"""C12 — reserved-word and colliding names are disambiguated without altering the wire."""
import json
import keyword
import os
import random
import re
import sys
import urllib.parse

from vlib import apigen, pipeline, rdm, refs
from vlib.build import json_name

ID = "C12"
LEVEL = "exploration"
EXHAUSTIVE = True
RULE = ("the finite space {words of the generator's reserved list and Python keywords (read from the working tree at run time)} x "
        "{top-level/nested field, flattened parameter (top-level, dotted), HTTP path variable (top-level, dotted leaf, dotted parent), HTTP body, REST query, REQUIRED REST query field (set and left at its "
        "default; lower-case words), "
        "explicit routing field (top-level, nested), rpc name (keywords), proto file name (keywords + metadata/retry/timeout/request)} is "
        "enumerated completely: one library per position holding all words (bisected down to single words when it cannot be generated "
        "or imported, so every pair gets its own verdict), each pair probed through introspection and sync gRPC + REST calls whose wire "
        "records must show the original names; plus module-name collision configurations; evaluations = (word, position) pairs "
        "judged; distinct = pairs that held")
ASSUMPTIONS = ["identity pandoc stand-in", "asyncio clients are covered by C03/C05/C06; here sync gRPC and REST are probed, plus the asyncio client for keyword-named RPCs"]
CASE_TIMEOUT = 1500
PARALLEL = 12
CONTROL = ["metadata", "retry", "timeout", "request"]


def words_from_tree():
    sys.path.insert(0, pipeline.REPO)
    from gapic.utils.reserved_names import RESERVED_NAMES
    return sorted(set(RESERVED_NAMES) | set(keyword.kwlist))


def reserved_set():
    sys.path.insert(0, pipeline.REPO)
    from gapic.utils.reserved_names import RESERVED_NAMES
    return set(RESERVED_NAMES) | set(keyword.kwlist)


def floors(tier):
    return {"pairs_judged": 500, "positions": 16, "collision_configs": 3, "namesake_calls": 40}


def plan(seed, tier):
    cases = [{"id": f"pos-{p}", "position": p, "seed": seed} for p in apigen.C12_POSITIONS]
    cases.append({"id": "collisions", "position": "collisions", "seed": seed})
    cases.append({"id": "twin-modules", "position": "twin-modules", "seed": seed})
    cases.append({"id": "core-namesakes", "position": "core-namesakes", "seed": seed})
    return cases


def words_for(position):
    # proto-plus stores attributes that start with '_' on the instance, never in the message, so a field named
    # __peg_parser__ cannot work in any proto-plus class whatever the generator emits: not part of the judged space
    ws = [w for w in words_from_tree() if not w.startswith("_")]
    if position == "rpc":
        return sorted(keyword.kwlist)
    if position == "file":
        # file names are lower-case (style guide): False/None/True are not generated as file names
        return sorted({k for k in keyword.kwlist if k.islower()} | set(CONTROL))
    if position == "query_required":
        # the table of REQUIRED defaults is keyed by the lowerCamel JSON name; field names are lower_snake_case (style guide), so
        # the capitalised keywords False/None/True are not judged here (their lowerCamel form differs from protoc's json_name)
        return [w for w in ws if w.islower()]
    return ws


def attempt(position, words, scratch, tag):
    """Generate + import + probe one library; returns (status, detail, per-item observations)."""
    api = apigen.reserved_api("w" + tag, words, position)
    sub = os.path.join(scratch, "lib" + tag)
    os.makedirs(sub, exist_ok=True)
    req, g, lib = pipeline.build_and_generate(api, sub)
    if not g.ok:
        return "generation-fails", g.failure(), None, api, None
    if position == "rpc":
        # gapic_metadata.json is part of the surface: the library method it names for an RPC is the one the clients offer
        api.info["metadata_methods"] = {}
        for fl in g.response.file:
            if fl.name.endswith("gapic_metadata.json"):
                try:
                    md = json.loads(fl.content)
                    for sname, sv in md.get("services", {}).items():
                        for kind, cl in sv.get("clients", {}).items():
                            for rpc, ent in cl.get("rpcs", {}).items():
                                api.info["metadata_methods"].setdefault(rpc, {})[kind] = list(ent.get("methods", []))
                except ValueError:
                    api.info["metadata_methods"] = None
    script = {"root_pkg": apigen.lib_root(api.info, api.options), "position": position, "items": api.info["items"],
              "reserved": sorted(reserved_set())}
    ev, rc, err = pipeline.run_runner("checks.c12", script, lib, timeout=600)
    if ev is not None and "library_import_error" in ev:
        return "library-import-fails", ev["library_import_error"], None, api, req
    if ev is None or "runner_crash" in ev:
        return "harness", f"rc={rc} {err[-500:]} {str(ev)[:800]}", None, api, req
    return "ok", None, ev["items"], api, req


def solve(position, words, scratch, out, depth=0, tag="0"):
    status, detail, obs, api, req = attempt(position, words, scratch, tag)
    out["generations"] += 1
    if status == "ok":
        model = rdm.Model(req)
        for item, o in zip(api.info["items"], obs):
            out["pairs"].append((item["word"], judge(position, item, o, model, api)))
        return
    if status == "harness":
        out["harness"].append(detail)
        return
    if len(words) == 1:
        out["pairs"].append((words[0], [{"clause": status, "detail": detail}]))
        return
    # first split: Python keywords vs the rest (the two classes usually fail or hold together), then halves
    kws = [w for w in words if keyword.iskeyword(w)]
    rest = [w for w in words if not keyword.iskeyword(w)]
    if depth == 0 and kws and rest:
        a, b = kws, rest
    else:
        mid = len(words) // 2
        a, b = words[:mid], words[mid:]
    solve(position, a, scratch, out, depth + 1, tag + "a")
    solve(position, b, scratch, out, depth + 1, tag + "b")


def run_case(case):
    scratch = pipeline.case_scratch("c12")
    position = case["position"]
    if position == "collisions":
        return run_collisions(case, scratch)
    if position == "twin-modules":
        return run_twin_modules(case, scratch)
    if position == "core-namesakes":
        return run_core_namesakes(case, scratch)
    words = words_for(position)
    out = {"pairs": [], "harness": [], "generations": 0}
    solve(position, words, scratch, out)
    if out["harness"]:
        return {"verdict": "inconclusive", "why": "; ".join(out["harness"])[:1500]}
    viol, sigs = [], []
    kw = set(keyword.kwlist)
    for w, v in out["pairs"]:
        if v:
            for x in v[:2]:
                viol.append({"clause": x["clause"], "detail": {"word": w, "position": position, "why": x["detail"]},
                             "mech": {"position": position, "hard_keyword": w in kw, "clause": x["clause"]}})
        else:
            sigs.append(f"{w}|{position}")
    return {"verdict": "violated" if viol else "held", "violations": viol, "evaluations": len(out["pairs"]),
            "nontrivial_sigs": sigs, "counters": {"pairs_judged": len(out["pairs"]), "positions": 1, "generations": out["generations"],
                                                    "pairs_held": len(sigs)},
            "sample": {"position": position, "words": len(words), "generations": out["generations"],
                       "first_pairs": [[w, "held" if not v else v[0]["clause"]] for w, v in out["pairs"][:6]]}}


def judge(position, item, o, model, api):
    v = []
    w = item["word"]
    res = reserved_set()
    w_ = w + "_" if w in res else w
    jn = json_name(w)

    def bad(clause, detail):
        v.append({"clause": clause, "detail": detail})

    if o.get("error"):
        bad("probe-raised", o["error"])
        return v
    pkg = api.info["pkg"]

    def grpc_req():
        e = o.get("grpc_event")
        if not e:
            bad("grpc-call-not-observed", o.get("grpc_error"))
            return None
        return e, model.parse(item["req"], rdm.unb64(e["requests"][0]))

    def rest_ev():
        e = o.get("rest_event")
        if not e:
            bad("rest-call-not-observed", o.get("rest_error"))
        return e

    def header(e, transport):
        if transport == "grpc":
            vals = [x for k, x in e["metadata"] if k.lower() == "x-goog-request-params"]
        else:
            vals = [x for k, x in e["headers"] if k.lower() == "x-goog-request-params"]
        return dict(urllib.parse.parse_qsl(vals[0], keep_blank_values=True)) if vals else {}

    if position in ("field", "flat", "flat_dotted", "path", "path_dotted", "path_dotted_parent", "body", "body_plain_uri", "query", "query_required", "routing", "routing_nested",
                    "path_additional", "body_additional"):
        if o.get("attr") != w_:
            bad("attribute-name", f"field {w!r}: reachable attribute is {o.get('attr')!r}, expected {w_!r}")
    g = grpc_req()
    r = rest_ev()
    if g is None or r is None:
        return v
    ge, gm = g
    want_path = f"/{pkg}.Words/{item['rpc']}"
    if ge["method"] != want_path:
        bad("rpc-path", f"{ge['method']} != {want_path}")
    body = rdm.unb64(r["body"]).decode("utf-8", "replace")
    q = dict(urllib.parse.parse_qsl(r["query"], keep_blank_values=True))
    path = urllib.parse.unquote(r["path"])
    try:
        bj = json.loads(body) if body else None
    except ValueError:
        bj = None
        bad("rest-body-not-json", body[:120])
    if position == "field":
        if getattr(gm, w) != "v1" or getattr(gm.inner, w) != "n1":
            bad("wire-field", f"server decoded {str(gm)[:160]!r}")
        if not isinstance(bj, dict) or bj.get(jn) != "v1" or (bj.get("inner") or {}).get(jn) != "n1":
            bad("json-key", f"REST body {body[:200]!r}: expected key {jn!r} at both levels")
    elif position == "flat":
        if o.get("param") != w_:
            bad("parameter-name", f"signature offers {o.get('params')}, expected {w_!r}")
        if getattr(gm, w) != "v1":
            bad("wire-field", f"server decoded {str(gm)[:160]!r}")
        if not isinstance(bj, dict) or bj.get(jn) != "v1":
            bad("json-key", f"REST body {body[:200]!r}")
    elif position == "flat_dotted":
        if o.get("param") != w_:
            bad("parameter-name", f"signature offers {o.get('params')}, expected {w_!r}")
        if getattr(gm.inner, w) != "n1":
            bad("wire-field", f"server decoded {str(gm)[:160]!r}")
        if not isinstance(bj, dict) or (bj.get("inner") or {}).get(jn) != "n1":
            bad("json-key", f"REST body {body[:200]!r}")
    elif position == "path":
        if getattr(gm, w) != "things/x":
            bad("wire-field", f"server decoded {str(gm)[:160]!r}")
        if path != f"/v1/things/x/p{item['i']}":
            bad("http-path", path)
        for tr, e in (("grpc", ge), ("rest", r)):
            if header(e, tr) != {w: "things/x"}:
                bad("routing-key", f"{tr}: {header(e, tr)} expected {{{w!r}: 'things/x'}}")
    elif position == "path_dotted":
        if getattr(gm.inner, w) != "things/x":
            bad("wire-field", f"server decoded {str(gm)[:160]!r}")
        if path != f"/v1/things/x/pd{item['i']}":
            bad("http-path", path)
        for tr, e in (("grpc", ge), ("rest", r)):
            if header(e, tr) != {f"inner.{w}": "things/x"}:
                bad("routing-key", f"{tr}: {header(e, tr)} expected key 'inner.{w}'")
    elif position == "path_dotted_parent":
        sub = getattr(gm, w)
        if sub.other != "things/x" or getattr(sub, w) != "n1":
            bad("wire-field", f"server decoded {str(gm)[:160]!r}")
        if path != f"/v1/things/x/pp{item['i']}":
            bad("http-path", path)
        if bj != {jn: "n1"}:
            bad("http-body", f"REST body {body[:200]!r}: expected the field named by body without the path-bound leaf, with key {jn!r}")
        for tr, e in (("grpc", ge), ("rest", r)):
            if header(e, tr) != {f"{w}.other": "things/x"}:
                bad("routing-key", f"{tr}: {header(e, tr)} expected key '{w}.other'")
    elif position in ("body", "body_plain_uri"):
        if position == "body_plain_uri" and path != f"/v1/plain/b{item['i']}":
            bad("http-path", path)
        sub = getattr(gm, w)
        if sub.other != "o" or getattr(sub, w) != "n1":
            bad("wire-field", f"server decoded {str(gm)[:160]!r}")
        if bj != {"other": "o", jn: "n1"}:
            bad("http-body", f"REST body {body[:200]!r}: expected exactly the field named by body with key {jn!r}")
        if q.get("extra") != "e1":
            bad("http-query", f"query {r['query']!r}: 'extra' should travel in the query")
        if jn in q or w in q:
            bad("http-query", f"body field also in query: {r['query']!r}")
    elif position == "path_additional":
        if getattr(gm, w) != "things/x":
            bad("wire-field", f"server decoded {str(gm)[:160]!r}")
        if path != f"/v1/things/x/pa{item['i']}":
            bad("http-path", f"{path} (the request matches the additional binding /v1/{{{w}=things/*}}/pa{item['i']} only)")
    elif position == "body_additional":
        sub = getattr(gm, w)
        if sub.other != "o" or getattr(sub, w) != "n1":
            bad("wire-field", f"server decoded {str(gm)[:160]!r}")
        if path != f"/v1/extras/e:ba{item['i']}":
            bad("http-path", path)
        if bj != {"other": "o", jn: "n1"}:
            bad("http-body", f"REST body {body[:200]!r}: expected exactly the field named by the additional binding's body with key {jn!r}")
    elif position == "query":
        if getattr(gm, w) != "q v":
            bad("wire-field", f"server decoded {str(gm)[:160]!r}")
        if q.get(jn, q.get(w)) != "q v":
            bad("http-query", f"query {r['query']!r}: expected key {jn!r} (or {w!r}) = 'q v'")
        if w_ != w and w_ in q:
            bad("http-query", f"suffixed name on the wire: {r['query']!r}")
    elif position == "query_required":
        # a REQUIRED field in query position travels under its original JSON name exactly once, set or left at its default
        if getattr(gm, w) != "q v":
            bad("wire-field", f"server decoded {str(gm)[:160]!r}")
        for label, ev_, want_val in (("set", r, "q v"), ("default", o.get("rest_default_event"), "")):
            if ev_ is None:
                bad("rest-call-failed", {"which": label, "error": o.get("rest_default_error")})
                continue
            pairs = urllib.parse.parse_qsl(ev_["query"], keep_blank_values=True)
            keys = [k for k, _ in pairs if k in (w, jn, w_, w + "_")]
            if keys != [jn] and keys != [w]:
                bad("http-query", f"REQUIRED field {w!r} {label}: query {ev_['query']!r} carries keys {keys}, expected exactly [{jn!r}]")
            elif dict(pairs).get(keys[0]) != want_val:
                bad("http-query", f"REQUIRED field {w!r} {label}: query {ev_['query']!r}, expected value {want_val!r}")
    elif position == "routing":
        for tr, e in (("grpc", ge), ("rest", r)):
            if header(e, tr) != {w: "rv"}:
                bad("routing-key", f"{tr}: {header(e, tr)} expected {{{w!r}: 'rv'}}")
    elif position == "routing_nested":
        for tr, e in (("grpc", ge), ("rest", r)):
            if header(e, tr) != {f"inner.{w}": "rv"}:
                bad("routing-key", f"{tr}: {header(e, tr)} expected key 'inner.{w}'")
    elif position == "rpc":
        sn = rdm.snake(item["rpc"])
        want = sn + "_" if keyword.iskeyword(sn) else sn
        if o.get("method") != want:
            bad("method-name", f"client offers {o.get('method')!r}, expected {want!r}")
        mm = (api.info.get("metadata_methods") or {}).get(item["rpc"])
        if not mm:
            bad("metadata-entry-missing", f"gapic_metadata.json has no entry for rpc {item['rpc']!r}")
        else:
            for kind, methods in sorted(mm.items()):
                if methods != [want]:
                    bad("metadata-method-name", f"gapic_metadata.json ({kind}) names {methods!r} for rpc {item['rpc']!r}, the clients offer {want!r}")
        if gm.text != "t1":
            bad("wire-field", f"server decoded {str(gm)[:160]!r}")
        if path != f"/v1/anchors/a:rpc{item['i']}":
            bad("http-path", path)
        # the asyncio client reaches the same RPC path under the same method name
        if o.get("aio_error"):
            bad("aio-call-failed", o["aio_error"])
        elif (o.get("aio_event") or {}).get("method") != want_path:
            bad("rpc-path", f"asyncio: {(o.get('aio_event') or {}).get('method')} != {want_path}")
    elif position == "file":
        if o.get("module") != w + "_":
            bad("module-name", f"types module {o.get('module')!r}, expected {w + '_'!r}")
        if gm.held.value != "h1" or [x.value for x in gm.held_again] != ["h2"] or getattr(gm, w) != "kv":
            bad("wire-field", f"server decoded {str(gm)[:160]!r}")
        if o.get("same_named_field_attr") != (w + "_" if w in reserved_set() else w):
            bad("field-attribute-name", f"field {w!r} reachable as {o.get('same_named_field_attr')!r}")
    return v


# -- module-name collisions ------------------------------------------------------

def run_twin_modules(case, scratch):
    """Two proto-plus modules of one base name (root package + sub-package), each with a message Item and an enum Level of the
    same numbers under other names; a third file uses both, some of them only through enum-typed fields."""
    viol, sigs, counters = [], [], {"collision_configs": 0, "pairs_judged": 0}
    for k in range(3):
        rng = random.Random(case["seed"] * 31 + k)
        api = apigen.twin_module_api(rng, "wtw%d" % k)
        sub = os.path.join(scratch, "tw%d" % k)
        os.makedirs(sub, exist_ok=True)
        req, g, lib = pipeline.build_and_generate(api, sub)
        counters["collision_configs"] += 1
        counters["pairs_judged"] += 1
        label = "twin-proto-plus-modules"
        if not g.ok:
            viol.append({"clause": "generation-fails", "detail": {"config": label, **g.failure()}, "mech": {"config": label}})
            continue
        has_book = any(m.name == "Book" for p in req.proto_file if p.name in req.file_to_generate for m in p.message_type)
        script = {"root_pkg": apigen.lib_root(api.info, api.options), "position": "twin-modules", "pkg": api.info["pkg"], "book": has_book}
        ev, rc, err = pipeline.run_runner("checks.c12", script, lib, timeout=200)
        if ev is not None and "library_import_error" in ev:
            viol.append({"clause": "library-import-fails", "detail": {"config": label, **ev["library_import_error"]}, "mech": {"config": label}})
            continue
        if ev is None or "runner_crash" in ev:
            return {"verdict": "inconclusive", "why": f"twin runner rc={rc} {err[-400:]} {str(ev)[:800]}"}
        want = {"item_root": api.info["pkg"] + ".Item", "item_sub": api.info["pkg"] + ".sub.Item"}
        if has_book:
            want.update({"level": ["HIGH", api.info["pkg"] + ".Level"], "admin_level": ["ROOT", api.info["pkg"] + ".sub.Level"],
                         "flat_admin_level": "ROOT"})
        bad = {k_: (ev["obs"].get(k_), v) for k_, v in want.items() if ev["obs"].get(k_) != v}
        if bad:
            viol.append({"clause": "module-collision", "detail": {"config": label, "observed_vs_expected": bad, "errors": ev["obs"].get("errors")},
                         "mech": {"config": label}})
        else:
            sigs.append(f"collision|{label}|book={has_book}|{k}")
    return {"verdict": "violated" if viol else "held", "violations": viol, "evaluations": counters["collision_configs"], "nontrivial_sigs": sigs,
            "counters": counters, "sample": {"configs": counters["collision_configs"]}}


def run_core_namesakes(case, scratch):
    """A target proto file named like a module the emitted clients import (google.api_core.operation, the service's own pagers,
    ...): unary, long-running and paged calls through the sync and asyncio clients must still work and return the file's types."""
    viol, sigs, counters = [], [], {"collision_configs": 0, "pairs_judged": 0, "namesake_calls": 0}
    rng0 = random.Random(case["seed"] * 17 + 5)
    configs = [(fn, False) for fn in apigen.CORE_NAMESAKES] + [(fn, True) for fn in rng0.sample(apigen.CORE_NAMESAKES, 2) + ["plain"]]
    sample = None
    for k, (fname, flat_op) in enumerate(configs):
        rng = random.Random(case["seed"] * 131 + k)
        api = apigen.core_namesake_api(rng, "wcn%d" % k, fname, flat_operation=flat_op)
        sub = os.path.join(scratch, "cn%d" % k)
        os.makedirs(sub, exist_ok=True)
        req, g, lib = pipeline.build_and_generate(api, sub)
        counters["collision_configs"] += 1
        counters["pairs_judged"] += 1
        label = f"file-named-{fname}" + ("+flattened-parameter-operation" if flat_op else "")
        mech = {"config": "core-namesake", "file": fname, "flat_operation": flat_op}
        if not g.ok:
            viol.append({"clause": "generation-fails", "detail": {"config": label, **g.failure()}, "mech": mech})
            continue
        pkg = api.info["pkg"]
        # structural fact used to tell mechanisms apart: the emitted client imports a foreign module of this very base name WITHOUT
        # an alias (`from google.api_core import gapic_v1`), so the later import of the API's own module shadows it
        svc_dir = os.path.join(lib, *apigen.lib_root(api.info, api.options).split("."), "services", "things")
        hit = False
        for dp, _dn, fns in os.walk(svc_dir):
            for fn in fns:
                if fn.endswith(".py"):
                    with open(os.path.join(dp, fn)) as fh:
                        hit = hit or bool(re.search(r"^from google\.\S+ import %s\s*(#.*)?$" % re.escape(fname), fh.read(), re.M))
        mech["service_module_imports_foreign_module_of_this_name_unaliased"] = hit
        model = rdm.Model(req)
        thing = model.new(pkg + ".Thing")
        thing.name, thing.count, thing.kind = "things/t1", 7, 2
        meta = model.new(pkg + ".RunMetadata")
        meta.percent = 100
        op = model.new("google.longrunning.Operation")
        op.name, op.done = "operations/o1", True
        op.response.type_url, op.response.value = "type.googleapis.com/" + pkg + ".Thing", thing.SerializeToString()
        op.metadata.type_url, op.metadata.value = "type.googleapis.com/" + pkg + ".RunMetadata", meta.SerializeToString()
        page = model.new(pkg + ".ListThingsResponse")
        page.things.add().CopyFrom(thing)
        script = {"root_pkg": apigen.lib_root(api.info, api.options), "position": "core-namesakes", "pkg": pkg, "flat_operation": flat_op,
                  "thing": rdm.b64(thing.SerializeToString()), "op": rdm.b64(op.SerializeToString()), "page": rdm.b64(page.SerializeToString())}
        ev, rc, err = pipeline.run_runner("checks.c12", script, lib, timeout=200)
        if ev is not None and "library_import_error" in ev:
            viol.append({"clause": "library-import-fails", "detail": {"config": label, **ev["library_import_error"]}, "mech": mech})
            continue
        if ev is None or "runner_crash" in ev:
            return {"verdict": "inconclusive", "why": f"core-namesake runner rc={rc} {err[-400:]} {str(ev)[:800]}"}
        bad = []
        for kind in ("grpc", "aio"):
            o = ev["obs"].get(kind, {})
            counters["namesake_calls"] += 3
            want = {"get": pkg + ".Thing", "run_result": pkg + ".Thing", "run_metadata": pkg + ".RunMetadata", "list_items": [pkg + ".Thing"],
                    "paths": [f"/{pkg}.Things/GetThing", f"/{pkg}.Things/Run", f"/{pkg}.Things/ListThings"]}
            for key, w in want.items():
                if o.get(key) != w:
                    bad.append({"client": kind, "what": key, "observed": o.get(key), "expected": w, "error": (o.get("errors") or [None])[0]})
            if not bad:
                sent = model.parse(pkg + ".StartRequest", rdm.unb64(o["run_request"]))
                exp = model.new(pkg + ".StartRequest")
                exp.name = "things/t1"
                if flat_op:
                    exp.operation = "op-x"
                else:
                    exp.thing.CopyFrom(thing)
                if sent != exp:
                    bad.append({"client": kind, "what": "flattened LRO request", "observed": str(sent)[:200], "expected": str(exp)[:200]})
        if bad:
            viol.append({"clause": "module-collision", "detail": {"config": label, "why": bad[:3]}, "mech": mech})
        else:
            sigs.append("core-namesake|" + label)
            sample = sample or {"config": label, "observed": ev["obs"].get("grpc")}
    return {"verdict": "violated" if viol else "held", "violations": viol, "evaluations": len(configs), "nontrivial_sigs": sigs,
            "counters": counters, "sample": sample or {}}


def run_collisions(case, scratch):
    """Two dependency packages with one module base name, dependency vs target file, alias that itself collides."""
    from vlib.build import File, STD_DEPS
    viol, sigs, counters = [], [], {"collision_configs": 0, "pairs_judged": 0}
    configs = []
    # (a) google.api.policy / google.iam.v1.policy? only iam is installed with messages; use synthetic pairs
    for label, mods in (("two-deps-same-basename", [("vpdepa.one.v1", "things"), ("vpdepb.two.v1", "things")]),
                        ("dep-vs-target-same-basename", [("vpdepa.one.v1", "wcol")]),
                        ("dep-named-like-field", [("vpdepa.one.v1", "shared_name"), ("vpdepb.two.v1", "shared_name")]),
                        ("three-deps-same-basename", [("vpdepa.one.v1", "common"), ("vpdepb.two.v1", "common"), ("vpdepc.three.v1", "common")])):
        api = apigen.Api("wcol")
        pkg = "vp.wcol.v1"
        P = "." + pkg
        deps = []
        for dp, base in mods:
            df = File(f"{dp.replace('.', '/')}/{base}.proto", dp, deps=[])
            m = df.message("Dep" + dp.split(".")[1].capitalize())
            m.field("id", "string")
            df.enum("Kind" + dp.split(".")[1].capitalize(), "KIND_UNSPECIFIED", "K1")
            api.add(df, target=False, synth=True)
            deps.append((df, dp, m.pb.name))
        f = File("vp/wcol/v1/wcol.proto", pkg, deps=list(STD_DEPS) + [d.pb.name for d, _, _ in deps])
        api.add(f)
        q = f.message("Req")
        q.field("anchor", "string")
        for i, (d, dp, mn) in enumerate(deps):
            q.field(f"dep_{i}", f".{dp}.{mn}")
            q.field(f"kind_{i}", f"enum:.{dp}.Kind{dp.split('.')[1].capitalize()}")
        q.field("shared_name", "string")
        q.field("things", "string")
        rp = f.message("Reply")
        for i, (d, dp, mn) in enumerate(deps):
            rp.field(f"dep_{i}", f".{dp}.{mn}", repeated=True)
        s = f.service("Coll", host="wcol.googleapis.com")
        s.rpc("Call", P + ".Req", P + ".Reply", http={"post": "/v1/{anchor=anchors/*}:call"}, body="*",
              sigs=[",".join(["anchor"] + [f"dep_{i}" for i in range(len(deps))])])
        api.options = ["transport=grpc+rest", "autogen-snippets=false"]
        api.info.update(pkg=pkg, version="v1", ns=["vp"], name="wcol", host="wcol.googleapis.com")
        configs.append((label, api, deps))
    sample = None
    for label, api, deps in configs:
        sub = os.path.join(scratch, label)
        os.makedirs(sub, exist_ok=True)
        req, g, lib = pipeline.build_and_generate(api, sub)
        counters["collision_configs"] += 1
        counters["pairs_judged"] += 1
        if not g.ok:
            viol.append({"clause": "generation-fails", "detail": {"config": label, **g.failure()}, "mech": {"config": label}})
            continue
        model = rdm.Model(req)
        x = model.new("vp.wcol.v1.Req")
        x.anchor = "anchors/a"
        for i in range(len(deps)):
            getattr(x, f"dep_{i}").id = f"id{i}"
            setattr(x, f"kind_{i}", 1)
        y = model.new("vp.wcol.v1.Reply")
        for i in range(len(deps)):
            getattr(y, f"dep_{i}").add().id = f"r{i}"
        script = {"root_pkg": "vp.wcol_v1", "position": "collisions", "request": rdm.b64(x.SerializeToString()),
                  "reply": rdm.b64(y.SerializeToString()), "ndeps": len(deps),
                  "dep_types": [f"{dp}.{mn}" for _, dp, mn in deps]}
        ev, rc, err = pipeline.run_runner("checks.c12", script, lib, timeout=200)
        if ev is not None and "library_import_error" in ev:
            viol.append({"clause": "library-import-fails", "detail": {"config": label, **ev["library_import_error"]},
                         "mech": {"config": label, "pb2_deps_share_basename": len({b for _, b in [(0, d.pb.name.rsplit("/", 1)[-1]) for d, _, _ in deps]}) < len(deps)}})
            continue
        if ev is None or "runner_crash" in ev:
            return {"verdict": "inconclusive", "why": f"collisions runner rc={rc} {err[-400:]} {str(ev)[:800]}"}
        bad = []
        if ev.get("error"):
            bad.append(ev["error"])
        else:
            got = model.parse("vp.wcol.v1.Req", rdm.unb64(ev["payload"]))
            if got != x:
                bad.append(f"request payload differs: {str(got)[:200]!r}")
            got2 = model.parse("vp.wcol.v1.Req", rdm.unb64(ev["payload_flat"]))
            if got2 != x_flat(model, x, len(deps)):
                bad.append(f"flattened payload differs: {str(got2)[:200]!r}")
            if ev["reply_types"] != script["dep_types"]:
                bad.append(f"reply item types {ev['reply_types']} != {script['dep_types']}")
        if bad:
            viol.append({"clause": "module-collision", "detail": {"config": label, "why": bad[:3]}, "mech": {"config": label}})
        else:
            sigs.append("collision|" + label)
            sample = sample or {"config": label, "reply_item_types": ev["reply_types"]}
    return {"verdict": "violated" if viol else "held", "violations": viol, "evaluations": len(configs), "nontrivial_sigs": sigs,
            "counters": counters, "sample": sample or {}}


def x_flat(model, x, n):
    y = model.new("vp.wcol.v1.Req")
    y.anchor = x.anchor
    for i in range(n):
        getattr(y, f"dep_{i}").CopyFrom(getattr(x, f"dep_{i}"))
    return y


# ---------------------------------------------------------------------------

def in_runner(script):
    import importlib
    import inspect
    from vlib import rt
    if script["position"] == "twin-modules":
        return twin_runner(script)
    if script["position"] == "core-namesakes":
        return core_namesake_runner(script)
    lib = rt.Lib(script["root_pkg"])
    srv = rt.GrpcServer()
    http = rt.HttpServer()
    gc = lib.grpc_client("Words" if script["position"] != "collisions" else "Coll", srv.target)
    rc = lib.rest_client("Words" if script["position"] != "collisions" else "Coll", http.host)
    if script["position"] == "collisions":
        out = {}
        try:
            srv.script("/vp.wcol.v1.Coll/Call", [{"payloads": [script["reply"]]}, {"payloads": [script["reply"]]}])
            req = lib.mk("vp.wcol.v1.Req", rt.unb64(script["request"]))
            mark = srv.mark()
            ret = gc.call(request=req)
            out["payload"] = srv.since(mark)[0]["requests"][0]
            out["reply_types"] = [rt.ser(getattr(ret, f"dep_{i}")[0])[0] for i in range(script["ndeps"])]
            mark = srv.mark()
            gc.call(anchor=req.anchor, **{f"dep_{i}": getattr(req, f"dep_{i}") for i in range(script["ndeps"])})
            out["payload_flat"] = srv.since(mark)[0]["requests"][0]
        except BaseException as e:  # noqa
            out["error"] = rt.exc_info(e)
        return out
    pos = script["position"]
    reserved = set(script["reserved"])
    items = []
    for it in script["items"]:
        w = it["word"]
        o = {}
        try:
            Req = lib.msg_cls(it["req"])
            w_ = None
            if pos not in ("rpc", "file"):
                probe = Req()
                cands = [a for a in (w, w + "_") if _has_field(probe, a)]
                o["attr"] = "|".join(cands) if cands else None
                w_ = cands[0] if cands else w
            kwargs = None
            if pos == "field":
                Inner = lib.msg_cls(it["inner"])
                req = Req(**{"anchor": "anchors/a", w_: "v1"})
                req.inner = Inner(**{w_: "n1"})
                assert getattr(req, w_) == "v1"
                name = "call%d" % it["i"]
            elif pos in ("flat", "flat_dotted"):
                name = "call%d" % it["i"]
                params = list(inspect.signature(getattr(type(gc), name)).parameters)
                o["params"] = params
                pw = w + "_" if (w + "_") in params else (w if w in params else None)
                o["param"] = pw
                req = None
                kwargs = {"anchor": "anchors/a", (pw or w + "_"): "v1" if pos == "flat" else "n1"}
            elif pos == "path":
                req = Req(**{w_: "things/x"})
                name = "call%d" % it["i"]
            elif pos == "path_dotted":
                Inner = lib.msg_cls(it["inner"])
                req = Req(inner=Inner(**{w_: "things/x"}))
                name = "call%d" % it["i"]
            elif pos == "path_dotted_parent":
                Inner = lib.msg_cls(it["inner"])
                iw = [a for a in (w, w + "_") if _has_field(Inner(), a)][0]
                req = Req(**{w_: Inner(**{"other": "things/x", iw: "n1"})})
                name = "call%d" % it["i"]
            elif pos in ("body", "body_plain_uri"):
                Inner = lib.msg_cls(it["inner"])
                iw = [a for a in (w, w + "_") if _has_field(Inner(), a)][0]
                req = Req(**{"anchor": "anchors/a", "extra": "e1", w_: Inner(**{"other": "o", iw: "n1"})})
                name = "call%d" % it["i"]
            elif pos == "path_additional":
                req = Req(**{w_: "things/x"})
                name = "call%d" % it["i"]
            elif pos == "body_additional":
                Inner = lib.msg_cls(it["inner"])
                iw = [a for a in (w, w + "_") if _has_field(Inner(), a)][0]
                req = Req(**{"extra": "extras/e", w_: Inner(**{"other": "o", iw: "n1"})})
                name = "call%d" % it["i"]
            elif pos in ("query", "query_required"):
                req = Req(**{"anchor": "anchors/a", w_: "q v"})
                name = "call%d" % it["i"]
            elif pos == "routing":
                req = Req(**{"anchor": "anchors/a", w_: "rv"})
                name = "call%d" % it["i"]
            elif pos == "routing_nested":
                Inner = lib.msg_cls(it["inner"])
                req = Req(anchor="anchors/a", inner=Inner(**{w_: "rv"}))
                name = "call%d" % it["i"]
            elif pos == "rpc":
                from vlib.rdm import snake
                sn = snake(it["rpc"])
                cands = [a for a in (sn, sn + "_") if hasattr(gc, a)]
                o["method"] = "|".join(cands) if cands else None
                name = cands[0] if cands else sn
                req = None
                kwargs = {"request": Req(anchor="anchors/a", text="t1")}
            elif pos == "file":
                mods = []
                for a in (w, w + "_"):
                    try:
                        m = importlib.import_module(f"{script['root_pkg']}.types.{a}")
                        if hasattr(m, "InFile%d" % it["i"]):
                            mods.append(a)
                    except Exception:
                        pass
                o["module"] = "|".join(mods) if mods else None
                Held = lib.msg_cls(it["msg"])
                attr = w + "_" if (w + "_") in Req._meta.fields else w
                o["same_named_field_attr"] = attr
                req = Req(anchor="anchors/a", held=Held(value="h1"), held_again=[Held(value="h2")], **{attr: "kv"})
                name = "use_file%d" % it["i"]
            for tr, client, server in (("grpc", gc, srv), ("rest", rc, http)):
                mark = server.mark()
                try:
                    if kwargs is not None:
                        kw = dict(kwargs)
                        getattr(client, name)(**kw)
                    else:
                        getattr(client, name)(request=type(req)(req))
                except BaseException as e:  # noqa
                    o[tr + "_error"] = rt.exc_info(e)
                evs = server.since(mark)
                if evs:
                    o[tr + "_event"] = evs[0]
            if pos == "rpc":
                import asyncio

                async def _aio_call():
                    ac = lib.aio_client("Words", srv.target)
                    return await getattr(ac, name)(**dict(kwargs))
                mark = srv.mark()
                try:
                    asyncio.run(_aio_call())
                except BaseException as e:  # noqa
                    o["aio_error"] = rt.exc_info(e)
                evs = srv.since(mark)
                if evs:
                    o["aio_event"] = evs[0]
            if pos == "query_required":
                mark = http.mark()
                try:
                    getattr(rc, name)(request=Req(anchor="anchors/a"))
                except BaseException as e:  # noqa
                    o["rest_default_error"] = rt.exc_info(e)
                evs = http.since(mark)
                if evs:
                    o["rest_default_event"] = evs[0]
        except BaseException as e:  # noqa
            o["error"] = rt.exc_info(e)
        items.append(o)
    srv.stop()
    return {"items": items}


def _has_field(obj, name):
    try:
        getattr(obj, name)
        return name in type(obj)._meta.fields if hasattr(type(obj), "_meta") else True
    except AttributeError:
        return False


def core_namesake_runner(script):
    import asyncio
    from vlib import rt
    lib = rt.Lib(script["root_pkg"])
    pkg = script["pkg"]
    srv = rt.GrpcServer()
    obs = {}
    Thing = lib.msg_cls(pkg + ".Thing")
    thing = Thing.deserialize(rt.unb64(script["thing"]))

    def prime():
        srv.script(f"/{pkg}.Things/GetThing", [{"payloads": [script["thing"]]}])
        srv.script(f"/{pkg}.Things/Run", [{"payloads": [script["op"]]}])
        srv.script(f"/{pkg}.Things/ListThings", [{"payloads": [script["page"]]}])
        return srv.mark()

    def kw():
        return {"name": "things/t1", "operation": "op-x"} if script["flat_operation"] else {"name": "things/t1", "thing": thing}

    def finish(o, mark):
        evs = srv.since(mark)
        o["paths"] = [e["method"] for e in evs]
        run = [e for e in evs if e["method"].endswith("/Run")]
        o["run_request"] = run[0]["requests"][0] if run else None

    o = obs["grpc"] = {"errors": []}
    mark = prime()
    try:
        gc = lib.grpc_client("Things", srv.target)
        o["get"] = rt.ser(gc.get_thing(name="things/t1"))[0]
        fut = gc.run(**kw())
        o["run_result"] = rt.ser(fut.result(timeout=30))[0]
        o["run_metadata"] = rt.ser(fut.metadata)[0]
        o["list_items"] = [rt.ser(x)[0] for x in gc.list_things(parent="shelves/s")]
    except BaseException as e:  # noqa
        o["errors"].append(rt.exc_info(e))
    finish(o, mark)

    async def amain():
        o = obs["aio"] = {"errors": []}
        mark = prime()
        try:
            ac = lib.aio_client("Things", srv.target)
            o["get"] = rt.ser(await ac.get_thing(name="things/t1"))[0]
            fut = await ac.run(**kw())
            o["run_result"] = rt.ser(await fut.result(timeout=30))[0]
            o["run_metadata"] = rt.ser(fut.metadata)[0]
            o["list_items"] = [rt.ser(x)[0] async for x in await ac.list_things(parent="shelves/s")]
        except BaseException as e:  # noqa
            o["errors"].append(rt.exc_info(e))
        finish(o, mark)

    asyncio.run(amain())
    srv.stop()
    return {"obs": obs}


def twin_runner(script):
    import importlib
    from vlib import rt
    lib = rt.Lib(script["root_pkg"])
    root = lib.root
    obs, errors = {}, []
    pkg = script["pkg"]
    srv = rt.GrpcServer()
    gc = lib.grpc_client("Catalog", srv.target)
    try:
        # which classes the client's RPCs are wired to
        Ack = lib.msg_cls(pkg + ".Ack")
        ItemS = importlib.import_module(script["root_pkg"] + ".sub.types").Item
        srv.script(f"/{pkg}.Catalog/Lookup", [{"payloads": [rt.b64(ItemS.serialize(ItemS(unit="kg", count=7)))]}])
        obs["item_sub"] = rt.ser(gc.lookup(request=Ack(ok=True)))[0]
        ItemR = importlib.import_module(script["root_pkg"] + ".types").Item
        srv.script(f"/{pkg}.Catalog/Find", [{"payloads": [rt.b64(ItemR.serialize(ItemR(name="n", count=2)))]}])
        obs["item_root"] = rt.ser(gc.find(request=Ack(ok=True)))[0]
    except BaseException as e:  # noqa
        errors.append(rt.exc_info(e))
    if script["book"]:
        try:
            Book = lib.msg_cls(pkg + ".Book")
            b = Book(level=2, admin_level=2)
            obs["level"] = [b.level.name, type(b.level).__module__ and _enum_full_name(b.level)]
            obs["admin_level"] = [b.admin_level.name, _enum_full_name(b.admin_level)]
            mark = srv.mark()
            import inspect as _i
            enum_cls = _i.signature(type(gc).put_book).parameters["admin_level"].annotation
            gc.put_book(title="t", admin_level=2)
            sent = Book.deserialize(rt.unb64(srv.since(mark)[0]["requests"][0]))
            obs["flat_admin_level"] = sent.admin_level.name
        except BaseException as e:  # noqa
            errors.append(rt.exc_info(e))
    obs["errors"] = errors
    srv.stop()
    return {"obs": obs}


def _enum_full_name(v):
    """proto full name of the enum a proto-plus enum member belongs to (looked up through its pb descriptor)."""
    try:
        return type(v)._meta.full_name
    except Exception:
        try:
            return type(v).pb(type(v)).DESCRIPTOR.full_name      # pragma: no cover
        except Exception:
            return type(v).__qualname__
