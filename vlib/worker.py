"""Per-case worker: python -m vlib.worker <PID> <case.json> <out.json>."""
import importlib
import json
import sys
import traceback


def main():
    pid, cp, op = sys.argv[1:4]
    with open(cp) as fh:
        case = json.load(fh)
    mod = importlib.import_module("checks." + pid.lower())
    try:
        res = mod.run_case(case)
    except BaseException as e:  # harness failure => inconclusive, never a verdict
        res = {"verdict": "inconclusive", "why": "harness exception %s: %s\n%s" % (
            type(e).__name__, e, traceback.format_exc()[-3000:])}
    with open(op, "w") as fh:
        json.dump(res, fh)


if __name__ == "__main__":
    main()
