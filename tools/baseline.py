#!/usr/bin/env python3
"""Runs the repository's pinned suite (guard off) and compares with BASELINE.json's stable_pass list."""
import json, os, subprocess, sys, tempfile, xml.etree.ElementTree as ET
repo = sys.argv[1] if len(sys.argv) > 1 else "/repo"
base = json.load(open("/root/.vp/BASELINE.json"))
out = tempfile.mktemp(suffix=".xml")
env = dict(os.environ); env.pop("GAPIC_GENERATOR_PYTHON_VERIF", None); env["PYTHONPATH"] = repo
subprocess.run(["/venv/bin/python", "-m", "pytest", "-q", "-p", "no:cacheprovider", "--timeout=900",
                "--continue-on-collection-errors", f"--junitxml={out}"], cwd=repo, env=env, capture_output=True)
passed = set()
for tc in ET.parse(out).getroot().iter("testcase"):
    if not any(c.tag in ("failure", "error", "skipped") for c in tc):
        passed.add(f"{tc.get('classname')}::{tc.get('name')}")
os.remove(out)
missing = [t for t in base["stable_pass"] if t not in passed]
print(f"stable_pass={len(base['stable_pass'])} passed_now={len(base['stable_pass']) - len(missing)} missing={missing[:10]}")
sys.exit(1 if missing else 0)
