"""Entry point of the fresh interpreter that executes emitted code.

usage: python -m vlib.runner <check module> <script.json> <out.json>
Calls <check module>.in_runner(script) and dumps what it returns.  Judging is
done elsewhere (offline) from the dumped events.
"""
import importlib
import json
import sys
import traceback


def main():
    modname, sp, op = sys.argv[1:4]
    with open(sp) as fh:
        script = json.load(fh)
    try:
        mod = importlib.import_module(modname)
        pre = None
        if isinstance(script, dict) and script.get("root_pkg") and not script.get("skip_preimport"):
            # an emitted library that cannot be imported is an observation about the library, not a harness crash
            try:
                importlib.import_module(script["root_pkg"])
            except BaseException as e:  # noqa
                pre = {"library_import_error": {"type": type(e).__name__, "msg": str(e)[:600],
                                                "tb": traceback.format_exc()[-2500:]}}
        out = pre if pre is not None else mod.in_runner(script)
    except BaseException as e:  # noqa
        out = {"runner_crash": {"type": type(e).__name__, "msg": str(e)[:2000],
                                "tb": traceback.format_exc()[-6000:]}}
    with open(op, "w") as fh:
        json.dump(out, fh)


if __name__ == "__main__":
    main()
    sys.stdout.flush()
    import os
    os._exit(0)  # do not wait for grpc/aio threads
