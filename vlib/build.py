"""Descriptor builder: produces the FileDescriptorProtos protoc would send.

Nothing here imports ``gapic``.  Every file set is validated by a private
``DescriptorPool`` (protobuf's own cross-linking); rejection there is a bug of
this harness, not of the generator.
"""
import importlib

from google.protobuf import descriptor_pb2 as dpb
from google.protobuf import descriptor_pool
from google.protobuf.compiler import plugin_pb2

# importing these registers the google.api.* extensions in the default pool so
# that options parse into extensions instead of unknown fields
from google.api import annotations_pb2, client_pb2, field_behavior_pb2  # noqa
from google.api import resource_pb2, routing_pb2, field_info_pb2, http_pb2  # noqa
from google.longrunning import operations_pb2  # noqa
from google.cloud import extended_operations_pb2  # noqa

F = dpb.FieldDescriptorProto

SCALARS = dict(
    double=1, float=2, int64=3, uint64=4, int32=5, fixed64=6, fixed32=7,
    bool=8, string=9, bytes=12, uint32=13, sfixed32=15, sfixed64=16,
    sint32=17, sint64=18,
)
INT_SCALARS = [k for k in SCALARS if "int" in k or "fixed" in k]

STD_DEP_MODULES = [
    "google.api.annotations_pb2",
    "google.api.client_pb2",
    "google.api.field_behavior_pb2",
    "google.api.resource_pb2",
    "google.api.routing_pb2",
    "google.api.field_info_pb2",
    "google.longrunning.operations_pb2",
    "google.protobuf.any_pb2",
    "google.protobuf.duration_pb2",
    "google.protobuf.empty_pb2",
    "google.protobuf.field_mask_pb2",
    "google.protobuf.struct_pb2",
    "google.protobuf.timestamp_pb2",
    "google.protobuf.wrappers_pb2",
    "google.rpc.status_pb2",
    "google.type.date_pb2",
    "google.type.latlng_pb2",
]
STD_DEPS = [
    "google/api/annotations.proto", "google/api/client.proto",
    "google/api/field_behavior.proto", "google/api/resource.proto",
    "google/api/routing.proto", "google/api/field_info.proto",
    "google/longrunning/operations.proto", "google/protobuf/any.proto",
    "google/protobuf/duration.proto", "google/protobuf/empty.proto",
    "google/protobuf/field_mask.proto", "google/protobuf/struct.proto",
    "google/protobuf/timestamp.proto", "google/protobuf/wrappers.proto",
    "google/rpc/status.proto", "google/type/date.proto",
    "google/type/latlng.proto",
]


def json_name(name):
    """protoc's ToJsonName: drop '_' and upper-case the following letter."""
    out, up = [], False
    for ch in name:
        if ch == "_":
            up = True
        elif up:
            out.append(ch.upper())
            up = False
        else:
            out.append(ch)
    return "".join(out)


def dep_files(mod_names):
    """Transitive closure of FileDescriptorProtos, topologically ordered."""
    out, seen = [], set()

    def visit(fd):
        if fd.name in seen:
            return
        seen.add(fd.name)
        for d in fd.dependencies:
            visit(d)
        p = dpb.FileDescriptorProto()
        fd.CopyToProto(p)
        out.append(p)

    for m in mod_names:
        visit(importlib.import_module(m).DESCRIPTOR)
    return out


class Msg:
    def __init__(self, pb, fq, file):
        self.pb, self.fq, self.file = pb, fq, file

    def _next_number(self):
        return max([f.number for f in self.pb.field] + [0]) + 1

    def field(self, name, typ, number=None, repeated=False, optional=False,
              oneof=None, required=False, ref=None, child_ref=None,
              uuid4=False, behaviors=(), jname=None):
        f = self.pb.field.add()
        f.name = name
        f.number = number or self._next_number()
        f.label = F.LABEL_REPEATED if repeated else F.LABEL_OPTIONAL
        if typ in SCALARS:
            f.type = SCALARS[typ]
        elif typ.startswith("enum:"):
            f.type = F.TYPE_ENUM
            f.type_name = typ[5:]
        else:
            f.type = F.TYPE_MESSAGE
            f.type_name = typ
        f.json_name = jname or json_name(name)
        if optional:
            f.proto3_optional = True
        if oneof is not None:
            names = [o.name for o in self.pb.oneof_decl]
            if oneof not in names:
                self.pb.oneof_decl.add().name = oneof
                names.append(oneof)
            f.oneof_index = names.index(oneof)
        if required:
            f.options.Extensions[field_behavior_pb2.field_behavior].append(
                field_behavior_pb2.REQUIRED)
        for b in behaviors:
            f.options.Extensions[field_behavior_pb2.field_behavior].append(b)
        if ref:
            f.options.Extensions[resource_pb2.resource_reference].type = ref
        if child_ref:
            f.options.Extensions[resource_pb2.resource_reference].child_type = child_ref
        if uuid4:
            f.options.Extensions[field_info_pb2.field_info].format = (
                field_info_pb2.FieldInfo.UUID4)
        return f

    def map(self, name, ktyp, vtyp, number=None):
        ename = "".join(w.capitalize() for w in name.split("_")) + "Entry"
        e = self.pb.nested_type.add()
        e.name = ename
        e.options.map_entry = True
        em = Msg(e, self.fq + "." + ename, self.file)
        em.field("key", ktyp, 1)
        em.field("value", vtyp, 2)
        return self.field(name, self.fq + "." + ename, number, repeated=True)

    def resource(self, type_, *patterns, plural=None, singular=None):
        r = self.pb.options.Extensions[resource_pb2.resource]
        r.type = type_
        r.pattern.extend(patterns)
        if plural:
            r.plural = plural
        if singular:
            r.singular = singular

    def nested(self, name):
        n = self.pb.nested_type.add()
        n.name = name
        return Msg(n, self.fq + "." + name, self.file)

    def enum(self, name, *values, numbers=None, allow_alias=False):
        e = self.pb.enum_type.add()
        e.name = name
        if allow_alias:
            e.options.allow_alias = True
        for i, v in enumerate(values):
            ev = e.value.add()
            ev.name = v
            ev.number = numbers[i] if numbers else i
        return "enum:" + self.fq + "." + name


class Svc:
    def __init__(self, pb, file):
        self.pb, self.file = pb, file
        self.fq = file.pb.package + "." + pb.name

    def rpc(self, name, inp, out, http=None, body=None, sigs=(), cs=False,
            ss=False, lro=None, routing=None, extra=(), deprecated=False,
            response_body=None):
        m = self.pb.method.add()
        m.name = name
        m.input_type = inp
        m.output_type = out
        m.client_streaming = cs
        m.server_streaming = ss
        if http:
            h = m.options.Extensions[annotations_pb2.http]
            (verb, path), = http.items()
            if verb == "custom":
                h.custom.kind, h.custom.path = path
            else:
                setattr(h, verb, path)
            if body:
                h.body = body
            if response_body:
                h.response_body = response_body
            for e in extra:
                a = h.additional_bindings.add()
                (v, p), = e[0].items()
                setattr(a, v, p)
                if len(e) > 1 and e[1]:
                    a.body = e[1]
        for s in sigs:
            m.options.Extensions[client_pb2.method_signature].append(s)
        if lro:
            oi = m.options.Extensions[operations_pb2.operation_info]
            oi.response_type, oi.metadata_type = lro
        if routing is not None:
            m.options.Extensions[routing_pb2.routing].SetInParent()     # an empty annotation is legal: no header at all
            for fld, tmpl in routing:
                rp = m.options.Extensions[routing_pb2.routing].routing_parameters.add()
                rp.field = fld
                if tmpl:
                    rp.path_template = tmpl
        if deprecated:
            m.options.deprecated = True
        return m


class File:
    def __init__(self, name, package, deps=STD_DEPS):
        self.pb = dpb.FileDescriptorProto(name=name, package=package, syntax="proto3")
        self.pb.dependency.extend(deps)

    def message(self, name):
        m = self.pb.message_type.add()
        m.name = name
        return Msg(m, "." + self.pb.package + "." + name, self)

    def enum(self, name, *values, numbers=None, allow_alias=False):
        e = self.pb.enum_type.add()
        e.name = name
        if allow_alias:
            e.options.allow_alias = True
        for i, v in enumerate(values):
            ev = e.value.add()
            ev.name = v
            ev.number = numbers[i] if numbers else i
        return "enum:." + self.pb.package + "." + name

    def service(self, name, host=None, scopes=None, api_version=None):
        s = self.pb.service.add()
        s.name = name
        if host:
            s.options.Extensions[client_pb2.default_host] = host
        if scopes:
            s.options.Extensions[client_pb2.oauth_scopes] = scopes
        if api_version:
            s.options.Extensions[client_pb2.api_version] = api_version
        return Svc(s, self)

    def resource_definition(self, type_, *patterns):
        r = self.pb.options.Extensions[resource_pb2.resource_definition].add()
        r.type = type_
        r.pattern.extend(patterns)


def _finalize_msg(m):
    """Synthetic oneofs for proto3 optional fields, after all real oneofs."""
    have = {o.name for o in m.oneof_decl}
    for f in m.field:
        if f.proto3_optional and not f.HasField("oneof_index"):
            n = "_" + f.name
            while n in have:
                n = "X" + n
            have.add(n)
            m.oneof_decl.add().name = n
            f.oneof_index = len(m.oneof_decl) - 1
    for n in m.nested_type:
        _finalize_msg(n)


# ---------------------------------------------------------------------------
# comments (source_code_info)

def add_comments(filepb, commenter):
    """Attach leading comments.  commenter(kind, fq_name) -> str | None.

    kind in {message, field, enum, enum_value, service, method, oneof}.
    """
    sci = filepb.source_code_info
    pkg = filepb.package

    def put(path, kind, name):
        text = commenter(kind, name)
        if text is None:
            return
        loc = sci.location.add()
        loc.path.extend(path)
        loc.span.extend([1, 0, 1, 1])
        loc.leading_comments = text

    def walk_msg(m, path, fq):
        put(path, "message", fq)
        for i, f in enumerate(m.field):
            put(path + [2, i], "field", fq + "." + f.name)
        for i, n in enumerate(m.nested_type):
            if not n.options.map_entry:
                walk_msg(n, path + [3, i], fq + "." + n.name)
        for i, e in enumerate(m.enum_type):
            walk_enum(e, path + [4, i], fq + "." + e.name)
        for i, o in enumerate(m.oneof_decl):
            put(path + [8, i], "oneof", fq + "." + o.name)

    def walk_enum(e, path, fq):
        put(path, "enum", fq)
        for i, v in enumerate(e.value):
            put(path + [2, i], "enum_value", fq + "." + v.name)

    for i, m in enumerate(filepb.message_type):
        walk_msg(m, [4, i], pkg + "." + m.name)
    for i, e in enumerate(filepb.enum_type):
        walk_enum(e, [5, i], pkg + "." + e.name)
    for i, s in enumerate(filepb.service):
        put([6, i], "service", pkg + "." + s.name)
        for j, m in enumerate(s.method):
            put([6, i, 2, j], "method", pkg + "." + s.name + "." + m.name)


# ---------------------------------------------------------------------------

class PoolRejected(Exception):
    pass


def make_request(files, targets, parameter="", dep_mods=STD_DEP_MODULES,
                 extra_dep_files=()):
    """files: File builders (or FileDescriptorProto); returns CodeGeneratorRequest.

    Files are topologically sorted; the whole set is linked in a private pool.
    """
    pbs = []
    for f in files:
        pb = f.pb if isinstance(f, File) else f
        for m in pb.message_type:
            _finalize_msg(m)
        pbs.append(pb)
    req = plugin_pb2.CodeGeneratorRequest(parameter=parameter)
    req.file_to_generate.extend(targets)
    deps = dep_files(dep_mods) + list(extra_dep_files)
    known = {p.name for p in deps}
    # topological order of our own files
    byname = {p.name: p for p in pbs}
    ordered, seen = [], set()

    def visit(p):
        if p.name in seen:
            return
        seen.add(p.name)
        for d in p.dependency:
            if d in byname:
                visit(byname[d])
        ordered.append(p)

    for p in pbs:
        visit(p)
    pool = descriptor_pool.DescriptorPool()
    for p in deps + ordered:
        try:
            pool.Add(p)
            # force cross-linking now (Add is lazy in the upb backend)
            pool.FindFileByName(p.name)
        except Exception as e:  # harness bug
            raise PoolRejected(f"{p.name}: {e}")
        req.proto_file.add().CopyFrom(p)
    return req


def pool_of(req):
    """Private pool with every file of the request (for reference models)."""
    pool = descriptor_pool.DescriptorPool()
    for p in req.proto_file:
        pool.Add(p)
    for p in req.proto_file:
        pool.FindFileByName(p.name)
    return pool
