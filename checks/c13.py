"""C13 — the unit-test suite emitted with a library passes against that library."""
import os
import random
import subprocess
import xml.etree.ElementTree as ET

from vlib import apigen, pipeline

ID = "C13"
LEVEL = "exploration"
RULE = ("cases = seeded APIs from the conventional profile (DESIGN §8) x option sets that change the emitted surface (grpc / rest / grpc+rest, "
        "numeric enums, mixins via service YAML, add-iam-methods, alternative templates) plus the speech v1 corpus request; the emitted "
        "tests/unit suite is run with pytest in a scratch tree against the emitted package and the junit report is judged (tests > 0, no "
        "failure, no error, every emitted test module collected); evaluations = emitted tests executed; distinct = distinct (shape-tag "
        "set, option set) whose suite passed")
ASSUMPTIONS = ["shapes excluded from the conventional profile are listed in DESIGN §8 (repeated bool response fields etc.)",
               "installed runtime dependencies (google-api-core 2.24, proto-plus 1.26, grpcio 1.84, pytest 8.3, pytest-asyncio 0.25)"]
CASE_TIMEOUT = 1500
PARALLEL = 5

OPTSETS = [
    ("grpc", ["transport=grpc"], None),
    ("rest", ["transport=rest"], None),
    ("grpc+rest", ["transport=grpc+rest"], None),
    ("rest+numeric", ["transport=rest", "rest-numeric-enums"], None),
    ("grpc+rest+numeric", ["transport=grpc+rest", "rest-numeric-enums"], None),
    ("grpc+rest+mixins", ["transport=grpc+rest"], ["locations", "iam", "operations"]),
    ("grpc+mixins-some", ["transport=grpc"], ["locations", "operations"]),
    ("grpc+add-iam", ["transport=grpc", "add-iam-methods"], None),
    ("ads", ["transport=grpc", "python-gapic-templates=ads-templates", "old-naming"], None),
    ("rest+mixins", ["transport=rest"], ["operations", "locations"]),
    ("grpc+rest+retry-config", ["transport=grpc+rest", "retry-config"], None),
    ("grpc+renamed+metadata", ["transport=grpc+rest", "python-gapic-name=renamed_lib", "python-gapic-namespace=vp.other", "metadata"], None),
    ("grpc+rest+async-rest+ops", ["transport=grpc+rest", "async-rest"], ["operations"]),
    ("rest+grpc", ["transport=rest+grpc"], None),         # the same transport set spelled REST-first
]


def floors(tier):
    k = 1 if tier == "quick" else 8
    fl = {"suites_run": 12 * k, "tests_executed": 4000 * k, "direct_imports_resolved": 200 * k, "iam_types_used_directly": 2 * k}
    fl.update({"optset:" + label: 1 for label, _o, _m in OPTSETS})
    return fl


def plan(seed, tier):
    n = 28 if tier == "quick" else 168
    cases = [{"id": f"suite-{seed}-{i}", "seed": seed * 100003 + i, "optset": i % len(OPTSETS), "kind": "conventional"} for i in range(n)]
    cases.append({"id": "suite-speech", "seed": seed, "optset": 2, "kind": "speech"})
    return cases


def build_api(case):
    rng = random.Random(case["seed"])
    apigen.NO_REP_BOOL[0] = True            # DESIGN §8.2
    try:
        lbl, o_, mx_ = OPTSETS[case["optset"]]
        # google.iam.v1 types used directly (no IAM mixin, no add-iam-methods): the declared dependencies must then name the IAM package
        iam_direct = None
        if "iam" not in (mx_ or []) and "add-iam-methods" not in o_ and rng.random() < 0.45:
            iam_direct = rng.choice(["field", "rpcs"])
        api = apigen.conventional(rng, "q%d" % (case["seed"] % 100000), {"exotic": False, "ns": ["vp"], "shuffle_numbers": True,
                                                                           "iam_direct": iam_direct, "lro_force": "async-rest" in o_,
                                                                           "int_path_var": case["seed"] % 2 == 0, "reserved_path_var": case["seed"] % 3 == 0})
    finally:
        apigen.NO_REP_BOOL[0] = False
    label, opts, mixins = OPTSETS[case["optset"]]
    opts = list(opts)
    if "retry-config" in opts:
        opts.remove("retry-config")
        import json as _json
        names = []
        for fb in api.files:
            if fb.pb.name in api.targets:
                for s_ in fb.pb.service:
                    for m_ in s_.method:
                        names.append({"service": f"{fb.pb.package}.{s_.name}", "method": m_.name})
        rng.shuffle(names)
        cfg = [{"name": names[: len(names) // 2], "timeout": "33s",
                "retryPolicy": {"initialBackoff": "0.2s", "maxBackoff": "12s", "backoffMultiplier": 1.5, "retryableStatusCodes": ["UNAVAILABLE", "DEADLINE_EXCEEDED"]}},
               {"name": names[len(names) // 2: len(names) // 2 + 2], "timeout": "7.5s"}]
        api.aux["retry-config"] = ("retry.json", _json.dumps({"methodConfig": cfg}))
    pub = None
    if "async-rest" in opts:
        opts.remove("async-rest")
        pub = {"library_settings": [{"version": api.info["pkg"], "python_settings": {"experimental_features": {"rest_async_io_enabled": True}}}]}
    api.options = opts
    if mixins is not None or pub:
        api.aux["service-yaml"] = ("svc.yaml", apigen.service_yaml(api, mixins=mixins or [], publishing=pub))
    return api, label


def run_case(case):
    scratch = pipeline.case_scratch("c13")
    if case["kind"] == "speech":
        from google.protobuf.compiler import plugin_pb2
        with open(os.path.join(pipeline.REPO, "tests/unit/configurable_snippetgen/resources/speech/request.desc"), "rb") as fh:
            req = plugin_pb2.CodeGeneratorRequest.FromString(fh.read())
        req.parameter = "transport=grpc+rest"
        g = pipeline.generate(req)
        label, tags = "speech:grpc+rest", {"corpus:speech"}
        lib = os.path.join(scratch, "lib")
        if g.ok:
            pipeline.materialise(g.response, lib)
    else:
        api, label = build_api(case)
        req, g, lib = pipeline.build_and_generate(api, scratch)
        tags = api.tags
    mech = {"optset": label}
    if not g.ok:
        return {"verdict": "violated", "evaluations": 1, "counters": {"generation_failed": 1},
                "violations": [{"clause": "generation-fails", "detail": g.failure(), "mech": {**mech, "exc_type": g.exc_type}}]}
    emitted = sorted(f.name for f in g.response.file if f.name.startswith("tests/unit/") and os.path.basename(f.name).startswith("test_"))
    junit = os.path.join(scratch, "junit.xml")
    env = dict(os.environ)
    env.update(PYTHONHASHSEED="0", PYTHONDONTWRITEBYTECODE="1", PYTHONPATH=lib, GRPC_VERBOSITY="NONE")
    for k in ("http_proxy", "https_proxy", "HTTP_PROXY", "HTTPS_PROXY"):
        env.pop(k, None)
    try:
        p = subprocess.run([pipeline.PY, "-m", "pytest", "tests/unit", "-q", "-p", "no:cacheprovider", "-n", "3", "--timeout=600",
                            f"--junitxml={junit}", "-x" if False else "--maxfail=50"], cwd=lib, env=env, capture_output=True, timeout=1300)
    except subprocess.TimeoutExpired:
        return {"verdict": "inconclusive", "why": "pytest watchdog"}
    if not os.path.exists(junit):
        return {"verdict": "inconclusive", "why": "no junit report: " + (p.stdout.decode("utf-8", "replace")[-600:] + p.stderr.decode("utf-8", "replace")[-600:])}
    root = ET.parse(junit).getroot()
    total = fails = errs = skipped = 0
    seen_files, witnesses = set(), []
    for tc in root.iter("testcase"):
        total += 1
        seen_files.add((tc.get("classname") or "").rsplit(".", 1)[0] if tc.get("classname") else "")
        for ch in tc:
            if ch.tag == "failure":
                fails += 1
                witnesses.append({"test": tc.get("name"), "kind": "failure", "message": (ch.get("message") or "")[:300]})
            elif ch.tag == "error":
                errs += 1
                witnesses.append({"test": tc.get("name"), "kind": "error", "message": (ch.get("message") or "")[:300]})
            elif ch.tag == "skipped":
                skipped += 1
    viol = []
    # "with the declared runtime dependencies": every google.* module the emitted package and its emitted tests import belongs to a
    # distribution in the closure of setup.py's `dependencies` (monitor shared with C01)
    from checks import c01
    root_pkg = sorted({f.name.split("/services/")[0].replace("/", ".") for f in g.response.file if "/services/" in f.name
                       and f.name.endswith(".py") and not f.name.startswith(("tests/", "samples/", "docs/"))}, key=len)[0]
    declared, direct = c01.declared_and_direct_imports(g.response, root_pkg, api.synth_deps if case["kind"] != "speech" else None,
                                                       also=("tests/unit/",))
    dev, drc, derr = pipeline.run_runner("checks.c13", {"root_pkg": root_pkg, "declared": declared, "direct_imports": direct, "skip_preimport": True}, lib, timeout=200)
    dep = (dev or {}).get("dependency_monitor") or {}
    if declared is None:
        viol.append({"clause": "setup-py-dependencies-unreadable", "detail": "no literal `dependencies = [...]` in setup.py", "mech": mech})
    for u in dep.get("undeclared", []):
        viol.append({"clause": "imports-undeclared-dependency", "detail": u, "mech": {**mech, "distribution": u.get("distribution")}})
    if total == 0:
        viol.append({"clause": "no-tests-ran", "detail": {"stdout": p.stdout.decode("utf-8", "replace")[-500:]}, "mech": mech})
    for w in witnesses[:6]:
        viol.append({"clause": "emitted-test-" + w["kind"], "detail": w, "mech": {**mech, "test": (w["test"] or "").split("[")[0]}})
    collected = {c.replace(".", "/") + ".py" for c in {tc.get("classname") or "" for tc in root.iter("testcase")}}
    for f in emitted:
        # directory names may contain dots (old naming): compare with '.' and '/' identified
        if f[:-3].replace(".", "/") + ".py" not in collected:
            viol.append({"clause": "emitted-test-module-not-collected", "detail": {"file": f, "collected": sorted(collected)[:5]}, "mech": mech})
    return {"verdict": "violated" if viol else "held", "violations": viol, "evaluations": total,
            "nontrivial_sigs": [] if viol else [{"tags": sorted(tags), "optset": label}],
            "counters": {"suites_run": 1, "tests_executed": total, "tests_skipped": skipped, "optset:" + label: 1,
                         "direct_imports_resolved": dep.get("resolved", 0),
                         "iam_types_used_directly": int(any(t.startswith("iam-types-used-directly") for t in tags))},
            "sample": {"optset": label, "tests": total, "failures": fails, "errors": errs, "skipped": skipped, "modules": emitted}}


def in_runner(script):
    import sys
    from checks import c01
    libroot = None
    for p in sys.path:
        if p and os.path.isdir(os.path.join(p, script["root_pkg"].split(".")[0])):
            libroot = p
    try:
        return {"dependency_monitor": c01.dependency_monitor(script.get("declared"), script.get("direct_imports") or [], libroot)}
    except BaseException as e:  # noqa
        return {"dependency_monitor": {"error": f"{type(e).__name__}: {e}"[:300], "resolved": 0, "undeclared": []}}


def extra_coverage(results, tier):
    return {"option_sets_seen": sorted({k[7:] for r in results for k in (r.get("counters") or {}) if k.startswith("optset:")})}
