"""Clock shim for C10: with VERIF_CLOCK_SHIFT=<seconds> every wall-clock source a Python program normally uses reports a
shifted time (time.time / time_ns / gmtime / localtime / ctime / strftime without an explicit time, datetime.now / utcnow /
today, date.today).  Loaded only when this directory is first on PYTHONPATH."""
import os

_shift = os.environ.get("VERIF_CLOCK_SHIFT")
if _shift:
    import time as _time
    import datetime as _dt
    _S = float(_shift)
    _real_time, _real_ns = _time.time, _time.time_ns
    _real_gm, _real_local, _real_ctime, _real_strftime = _time.gmtime, _time.localtime, _time.ctime, _time.strftime
    _time.time = lambda: _real_time() + _S
    _time.time_ns = lambda: _real_ns() + int(_S * 1e9)
    _time.gmtime = lambda secs=None: _real_gm(_time.time() if secs is None else secs)
    _time.localtime = lambda secs=None: _real_local(_time.time() if secs is None else secs)
    _time.ctime = lambda secs=None: _real_ctime(_time.time() if secs is None else secs)
    _time.strftime = lambda fmt, t=None: _real_strftime(fmt, _time.localtime() if t is None else t)
    _delta = _dt.timedelta(seconds=_S)
    _RealDT, _RealDate = _dt.datetime, _dt.date

    class datetime(_RealDT):          # noqa: N801
        @classmethod
        def now(cls, tz=None):
            return _RealDT.now(tz) + _delta

        @classmethod
        def utcnow(cls):
            return _RealDT.utcnow() + _delta

        @classmethod
        def today(cls):
            return _RealDT.today() + _delta

    class date(_RealDate):            # noqa: N801
        @classmethod
        def today(cls):
            return (_RealDT.today() + _delta).date()

    _dt.datetime = datetime
    _dt.date = date
