"""C02 — generated message and enum classes are wire-compatible with the input descriptors."""
import json
import keyword
import random

from google.protobuf import descriptor_pb2 as dpb, json_format
from google.protobuf.descriptor import FieldDescriptor as FD

from vlib import apigen, pipeline, rdm

ID = "C02"
LEVEL = "translation_validation"
RULE = ("programs = emitted types packages (one per seeded message graph); per message: runtime descriptor of the generated class "
        "vs input DescriptorProto (canonical form), bytes round trip both directions (deserialize->serialize, python-surface "
        "construction->serialize) and JSON keys/parse-back for random valuations judged under the input descriptors; "
        "distinct_nontrivial = distinct (field-kind, scalar type, cardinality) triples that occurred in a message whose three "
        "obligations all held with a non-empty valuation")
ASSUMPTIONS = ["NaN excluded from equality", "Struct/Value/ListValue/Any excluded from python-surface construction",
               "proto-plus / protobuf runtime trusted", "reserved list read from the working tree at run time"]
CASE_TIMEOUT = 400
PARALLEL = 12
VALS = 12


def floors(tier):
    k = 1 if tier == "quick" else 10
    return {"messages_structurally_compared": 150 * k, "enums_compared": 40 * k, "roundtrips_bytes": 1800 * k,
            "roundtrips_surface": 900 * k, "json_checked": 1800 * k}


def plan(seed, tier):
    n = 16 if tier == "quick" else 200
    out = []
    for i in range(n):
        out.append({"id": f"types-{seed}-{i}", "seed": seed * 100003 + i, "profile": "zoo" if i % 2 == 0 else "wellformed"})
    # messages and enums of one name in two modules of one base name (root package and a sub-package)
    out += [{"id": f"types-twin-{seed}-{i}", "seed": seed * 100003 + 4000 + i, "profile": "twin"} for i in range(max(2, n // 10))]
    return out


def build_api(case):
    rng = random.Random(case["seed"])
    nm = "t%d" % (case["seed"] % 100000)
    if case["profile"] == "twin":
        api = apigen.twin_module_api(rng, nm)
    elif case["profile"] == "zoo":
        api = apigen.types_zoo(rng, nm)
    else:
        api = apigen.wellformed(rng, nm)
    api.options = ["transport=grpc", "autogen-snippets=false"]
    return api


def reserved_names():
    import sys
    sys.path.insert(0, pipeline.REPO)
    from gapic.utils.reserved_names import RESERVED_NAMES
    return set(RESERVED_NAMES)


def canon_msg(m, attr=None):
    """DescriptorProto -> canonical comparable dict.  attr: maps the proto field
    name to the expected Python attribute (the runtime descriptor of a
    proto-plus class is keyed by attribute name; the wire does not carry names)."""
    attr = attr or (lambda n: n)
    real = {}
    for i, o in enumerate(m.oneof_decl):
        members = [f for f in m.field if f.HasField("oneof_index") and f.oneof_index == i]
        synthetic = len(members) == 1 and members[0].proto3_optional
        if not synthetic:
            real[i] = o.name
    entries = {n.name: n for n in m.nested_type if n.options.map_entry}
    fields = {}
    for f in m.field:
        tn = f.type_name.lstrip(".")
        ent = entries.get(tn.rsplit(".", 1)[-1]) if (f.type == F_MESSAGE and f.label == F_REPEATED) else None
        if ent is not None:
            # the entry type's name is not observable on the wire: compare key/value types
            k, v = ent.field[0], ent.field[1]
            if k.number != 1:
                k, v = v, k
            tn = f"map<{k.type},{v.type},{v.type_name.lstrip('.')}>"
        fields[str(f.number)] = {
            "name": attr(f.name), "type": f.type, "label": f.label, "type_name": tn,
            "oneof": real.get(f.oneof_index) if f.HasField("oneof_index") else None,
            "optional": bool(f.proto3_optional), "json_name": f.json_name or apigen.build.json_name(f.name),
        }
    return {
        "name": m.name, "fields": fields,
        "nested": {n.name: canon_msg(n, attr) for n in m.nested_type if not n.options.map_entry},
        "enums": {e.name: {v.name: v.number for v in e.value} for e in m.enum_type},
    }


F_MESSAGE = dpb.FieldDescriptorProto.TYPE_MESSAGE
F_REPEATED = dpb.FieldDescriptorProto.LABEL_REPEATED


pkg_of = {}          # full name -> proto package of its file (filled by all_messages)
cur_pkg = [None]


def all_messages(req):
    """(full name, DescriptorProto, nesting path) for messages of target files."""
    out = []

    def walk(m, fq, path):
        if m.options.map_entry:
            return
        out.append((fq, m, path))
        pkg_of[fq] = cur_pkg[0]
        for n in m.nested_type:
            walk(n, fq + "." + n.name, path + [n.name])

    enums = []

    def walk_enums(m, fq, path):
        for e in m.enum_type:
            enums.append((fq + "." + e.name, e, path + [e.name]))
            pkg_of[fq + "." + e.name] = cur_pkg[0]
        for n in m.nested_type:
            if not n.options.map_entry:
                walk_enums(n, fq + "." + n.name, path + [n.name])

    for p in req.proto_file:
        if p.name in req.file_to_generate:
            cur_pkg[0] = p.package
            for e_ in p.enum_type:
                pkg_of[p.package + "." + e_.name] = p.package
            for m in p.message_type:
                walk(m, p.package + "." + m.name, [m.name])
                walk_enums(m, p.package + "." + m.name, [m.name])
            for e in p.enum_type:
                enums.append((p.package + "." + e.name, e, [e.name]))
    return out, enums


def json_keys(d, desc):
    """Recursive key structure of a MessageToDict result under descriptor desc
    (stops at well-known types, whose JSON is special-cased)."""
    if desc.full_name.startswith("google.protobuf."):
        return "WKT"
    if not isinstance(d, dict):
        return "?"
    out = {}
    byjson = {f.json_name: f for f in desc.fields}
    for k, v in d.items():
        f = byjson.get(k)
        if f is None:
            out[k] = "UNKNOWN-KEY"
            continue
        if f.type == FD.TYPE_MESSAGE:
            if rdm.is_map(f):
                vf = f.message_type.fields_by_name["value"]
                if vf.type == FD.TYPE_MESSAGE and isinstance(v, dict):
                    out[k] = {"map": sorted(json.dumps(json_keys(x, vf.message_type), sort_keys=True) for x in v.values())}
                else:
                    out[k] = "map"
            elif f.label == FD.LABEL_REPEATED:
                out[k] = [json_keys(x, f.message_type) for x in (v or [])]
            else:
                out[k] = json_keys(v, f.message_type) if v is not None else None
        else:
            out[k] = "leaf"
    return out


def kinds_of(desc):
    out = set()
    for f in desc.fields:
        card = "map" if rdm.is_map(f) else ("repeated" if f.label == FD.LABEL_REPEATED else
                                            ("oneof" if f.containing_oneof and not rdm._is_synthetic(f.containing_oneof) else
                                             ("optional" if f.has_presence and f.type != FD.TYPE_MESSAGE else "singular")))
        out.add(f"{card}:{f.type}")
    return out


def run_case(case):
    scratch = pipeline.case_scratch("c02")
    return _run_case(case, scratch)


def _foreign_collection(pkg):
    """proto-plus converts a dict into a dependency (pb2) message only for singular fields: lists/maps of pb2 messages
    must be given as pb2 instances, so they are left out of the python-surface valuations (they stay in the bytes ones)."""
    def skip(fd):
        if fd.type != FD.TYPE_MESSAGE:
            return False
        t = fd.message_type
        if t.GetOptions().map_entry:
            v = t.fields_by_name["value"]
            return v.type == FD.TYPE_MESSAGE and not v.message_type.full_name.startswith(pkg + ".")
        return fd.label == FD.LABEL_REPEATED and not t.full_name.startswith(pkg + ".")
    return skip


def _sub(api, fq):
    """Sub-package (relative to the API's package) in which the type's file lives: its classes are exported there."""
    p = pkg_of.get(fq) or api.info["pkg"]
    return p[len(api.info["pkg"]) + 1:] if p.startswith(api.info["pkg"] + ".") else ""


def _run_case(case, scratch):
    api = build_api(case)
    req, g, lib = pipeline.build_and_generate(api, scratch)
    if not g.ok:
        return pipeline.gen_failed_result(g, api)
    model = rdm.Model(req)
    foreign_collection = _foreign_collection(api.info["pkg"])
    rng = random.Random(case["seed"] ^ 0xC02)
    reserved = reserved_names()
    msgs, enums = all_messages(req)
    items = []
    for fq, m, path in msgs:
        d = model.desc(fq)
        vals, surf = [], []
        for i in range(VALS):
            x = rdm.fill(rng, model.new(fq), max_depth=3, p_set=rng.choice([0.3, 0.6, 0.95]))
            vals.append(rdm.b64(x.SerializeToString()))
        for i in range(VALS // 2):
            x = rdm.fill(rng, model.new(fq), max_depth=2, p_set=rng.choice([0.4, 0.9]), avoid_types=rdm.CONTAINER_WKT, skip=foreign_collection)
            py = rdm.to_py(x)
            # python surface: top-level keys are attribute names
            py = {(k + "_" if (k in reserved or keyword.iskeyword(k)) else k): v for k, v in py.items()}
            surf.append({"py": py, "bytes": rdm.b64(x.SerializeToString())})
        attrs = {f.name: [f.name + "_"] if (f.name in reserved or keyword.iskeyword(f.name)) else [f.name] for f in m.field}
        items.append({"fq": fq, "path": path, "vals": vals, "surface": surf, "attrs": attrs, "sub": _sub(api, fq)})
    eitems = [{"fq": fq, "path": path, "sub": _sub(api, fq)} for fq, e, path in enums]
    script = {"root_pkg": apigen.lib_root(api.info, api.options), "messages": items, "enums": eitems}
    ev, rc, err = pipeline.run_runner("checks.c02", script, lib, timeout=300)
    if ev is None or "runner_crash" in ev or "library_import_error" in ev:
        return pipeline.runner_failed_result(ev, rc, err, api)
    viol, counters, sigs = [], {}, set()

    def bump(k, n=1):
        counters[k] = counters.get(k, 0) + n

    def bad(clause, fq, detail, **mech):
        viol.append({"clause": clause, "detail": {"message": fq, "why": detail}, "mech": mech})

    sample = None
    for (fq, m, path), it, r in zip(msgs, items, ev["messages"]):
        ok = True
        if r.get("error"):
            bad("class-not-usable", fq, r["error"])
            continue
        # (a) structure
        got = dpb.DescriptorProto.FromString(rdm.unb64(r["descriptor"]))
        a, b = canon_msg(got), canon_msg(m, lambda n: n + "_" if (n in reserved or keyword.iskeyword(n)) else n)
        bump("messages_structurally_compared")
        if r.get("full_name") != fq:
            bad("structure-differs", fq, f"runtime full name {r.get('full_name')}")
            ok = False
        if a != b:
            diff = _first_diff(a, b)
            bad("structure-differs", fq, diff)
            ok = False
        for fname, want in it["attrs"].items():
            have = r["attr_present"].get(fname)
            if have != want[0]:
                bad("attribute-name", fq, f"field {fname}: attribute {have!r}, expected {want[0]!r}")
                ok = False
        # (b) bytes both directions
        d = model.desc(fq)
        for sent, back in zip(it["vals"], r["roundtrip"]):
            bump("roundtrips_bytes")
            if isinstance(back, dict):
                bad("roundtrip-bytes", fq, back)
                ok = False
                break
            x, y = model.parse(fq, rdm.unb64(sent)), model.parse(fq, rdm.unb64(back))
            if x != y or rdm.has_unknown(y):
                bad("roundtrip-bytes", fq, f"sent {str(x)[:200]!r} got {str(y)[:200]!r}")
                ok = False
                break
        for s, back in zip(it["surface"], r["surface"]):
            bump("roundtrips_surface")
            if isinstance(back, dict):
                bad("roundtrip-surface", fq, back)
                ok = False
                break
            x, y = model.parse(fq, rdm.unb64(s["bytes"])), model.parse(fq, rdm.unb64(back))
            if x != y or rdm.has_unknown(y):
                bad("roundtrip-surface", fq, f"intended {str(x)[:200]!r} got {str(y)[:200]!r}")
                ok = False
                break
        # (c) JSON
        for sent, js in zip(it["vals"], r["json"]):
            bump("json_checked")
            if isinstance(js, dict) and "error" in js:
                bad("json", fq, js)
                ok = False
                break
            x = model.parse(fq, rdm.unb64(sent))
            try:
                theirs = json.loads(js)
                mine = json_format.MessageToDict(x, always_print_fields_with_no_presence=True)
                ka, kb = json_keys(theirs, d), json_keys(mine, d)
                if ka != kb:
                    bad("json-keys", fq, _first_diff(ka, kb))
                    ok = False
                    break
                y = json_format.Parse(js, model.new(fq))
                if x != y:
                    bad("json-parse-back", fq, f"{str(x)[:200]!r} vs {str(y)[:200]!r}")
                    ok = False
                    break
            except Exception as e:  # noqa
                bad("json", fq, f"{type(e).__name__}: {e}")
                ok = False
                break
        if ok:
            sigs.update(kinds_of(d))
            if sample is None and len(m.field) > 3:
                sample = {"message": fq, "fields": len(m.field), "valuation_bytes": it["vals"][0][:80], "json": r["json"][0][:300]}
    for (fq, e, path), r in zip(enums, ev["enums"]):
        bump("enums_compared")
        want = {v.name: v.number for v in e.value}
        if r.get("error") or r.get("members") != want:
            viol.append({"clause": "enum-differs", "detail": {"enum": fq, "seen": r, "want": want}, "mech": {}})
    return {"verdict": "violated" if viol else "held", "violations": pipeline.diverse(viol, 40), "evaluations": len(msgs) + len(enums),
            "nontrivial_sigs": sorted(sigs), "counters": counters, "sample": sample or {},
            "programs": 1}


def extra_coverage(results, tier):
    return {"programs": sum(1 for r in results if r.get("programs")), "disagreements_checked": sum(
        (r.get("counters") or {}).get("messages_structurally_compared", 0) + (r.get("counters") or {}).get("roundtrips_bytes", 0)
        + (r.get("counters") or {}).get("roundtrips_surface", 0) + (r.get("counters") or {}).get("json_checked", 0) for r in results)}


def _first_diff(a, b, path=""):
    if type(a) != type(b):
        return f"{path}: {a!r} != {b!r}"
    if isinstance(a, dict):
        for k in sorted(set(a) | set(b)):
            if k not in a:
                return f"{path}/{k}: missing in generated (input has {str(b[k])[:200]})"
            if k not in b:
                return f"{path}/{k}: extra in generated ({str(a[k])[:200]})"
            d = _first_diff(a[k], b[k], path + "/" + str(k))
            if d:
                return d
        return None
    if isinstance(a, list):
        if len(a) != len(b):
            return f"{path}: length {len(a)} != {len(b)}"
        for i, (x, y) in enumerate(zip(a, b)):
            d = _first_diff(x, y, f"{path}[{i}]")
            if d:
                return d
        return None
    return None if a == b else f"{path}: generated {a!r} != input {b!r}"


# ---------------------------------------------------------------------------

def in_runner(script):
    import importlib
    from google.protobuf import descriptor_pb2
    from vlib import rt
    from vlib.rdm import decode_py
    root = importlib.import_module(script["root_pkg"])
    types = importlib.import_module(script["root_pkg"] + ".types")

    def locate(path, sub=""):
        objs = []
        bases = (root, types) if not sub else (importlib.import_module(script["root_pkg"] + "." + sub),
                                               importlib.import_module(script["root_pkg"] + "." + sub + ".types"))
        for base in bases:
            cur = base
            try:
                for p in path:
                    cur = getattr(cur, p)
                objs.append(cur)
            except AttributeError as e:
                raise LookupError(f"{'.'.join(path)} not reachable from {base.__name__}: {e}")
        if objs[0] is not objs[1]:
            raise LookupError(f"{'.'.join(path)}: package and types export different objects")
        return objs[0]

    out = {"messages": [], "enums": []}
    for it in script["messages"]:
        r = {}
        try:
            cls = locate(it["path"], it.get("sub") or "")
            obj = cls()
            desc = cls.pb(obj).DESCRIPTOR
            dp = descriptor_pb2.DescriptorProto()
            desc.CopyToProto(dp)
            r["descriptor"] = rt.b64(dp.SerializeToString())
            r["full_name"] = desc.full_name
            present = {}
            for fname, cands in it["attrs"].items():
                seen = None
                for a in (fname, fname + "_"):
                    if a in cls._meta.fields if hasattr(cls, "_meta") else hasattr(obj, a):
                        # cross-check through the public surface
                        try:
                            getattr(obj, a)
                            seen = a if seen is None else seen + "|" + a
                        except AttributeError:
                            pass
                present[fname] = seen
            r["attr_present"] = present
            rts = []
            for v in it["vals"]:
                try:
                    o = cls.deserialize(rt.unb64(v))
                    rts.append(rt.b64(cls.serialize(o)))
                except BaseException as e:  # noqa
                    rts.append({"error": f"{type(e).__name__}: {e}"[:300]})
            r["roundtrip"] = rts
            sf = []
            for s in it["surface"]:
                try:
                    o = cls(**decode_py(s["py"]))
                    sf.append(rt.b64(cls.serialize(o)))
                except BaseException as e:  # noqa
                    sf.append({"error": f"{type(e).__name__}: {e}"[:300], "py": str(s["py"])[:300]})
            r["surface"] = sf
            js = []
            for v in it["vals"]:
                try:
                    js.append(cls.to_json(cls.deserialize(rt.unb64(v))))
                except BaseException as e:  # noqa
                    js.append({"error": f"{type(e).__name__}: {e}"[:300]})
            r["json"] = js
        except BaseException as e:  # noqa
            r["error"] = f"{type(e).__name__}: {e}"[:500]
        out["messages"].append(r)
    for it in script["enums"]:
        try:
            cls = locate(it["path"], it.get("sub") or "")
            out["enums"].append({"members": {n: int(m.value) for n, m in cls.__members__.items()}})   # __members__ keeps aliases
        except BaseException as e:  # noqa
            out["enums"].append({"error": f"{type(e).__name__}: {e}"[:300]})
    return out
