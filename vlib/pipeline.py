"""Run the real plugin (`python -m gapic.cli.generate`) as a subprocess."""
import os
import shutil
import subprocess
import sys
import tempfile

from google.protobuf.compiler import plugin_pb2

VERIF = os.path.dirname(os.path.dirname(os.path.abspath(__file__)))
PY = "/venv/bin/python"
REPO = os.environ.get("VERIF_REPO", "/repo")
GUARD = "GAPIC_GENERATOR_PYTHON_VERIF"


def scratch_root():
    root = os.environ.get("VP_SCRATCH")
    if not root:
        base = "/dev/shm" if os.path.isdir("/dev/shm") and os.access("/dev/shm", os.W_OK) else tempfile.gettempdir()
        root = os.path.join(base, "gapic-verif")
    os.makedirs(root, exist_ok=True)
    return root


def new_scratch(prefix="case"):
    return tempfile.mkdtemp(prefix=prefix + "-", dir=scratch_root())


def gen_env(extra=None, hashseed="0"):
    e = dict(os.environ)
    e["PYPANDOC_PANDOC"] = os.path.join(VERIF, "tools", "pandoc")
    e["PYTHONHASHSEED"] = hashseed
    e["PYTHONDONTWRITEBYTECODE"] = "1"
    e[GUARD] = "1"
    # the repo is installed editable in /venv; make sure a different REPO wins
    e["PYTHONPATH"] = REPO + (os.pathsep + e["PYTHONPATH"] if e.get("PYTHONPATH") else "")
    e.pop("PYTHONWARNINGS", None)
    e.update(extra or {})
    return e


class GenResult:
    def __init__(self, ok, response=None, raw=None, rc=None, stderr="", exc_type=None, exc_msg=None):
        self.ok, self.response, self.raw = ok, response, raw
        self.rc, self.stderr, self.exc_type, self.exc_msg = rc, stderr, exc_type, exc_msg

    def failure(self):
        return {"rc": self.rc, "exc_type": self.exc_type, "exc_msg": self.exc_msg,
                "stderr_tail": self.stderr[-1500:]}


def _parse_exc(stderr):
    """Last 'Type: message' line of a traceback."""
    lines = [l for l in stderr.strip().splitlines() if l.strip()]
    for l in reversed(lines):
        if l and not l.startswith((" ", "\t")) and (":" in l or l.replace(".", "").replace("_", "").isalnum()):
            t, _, m = l.partition(":")
            if " " not in t.strip():
                return t.strip(), m.strip()
    return None, (lines[-1] if lines else "")


def generate(req, env=None, hashseed="0", timeout=300, cwd=None):
    """req: CodeGeneratorRequest or bytes.  Returns GenResult."""
    data = req if isinstance(req, bytes) else req.SerializeToString()
    timeout = timeout * float(os.environ.get("VERIF_GEN_TIMEOUT_SCALE") or 1)
    try:
        p = subprocess.run([PY, "-m", "gapic.cli.generate"], input=data,
                           capture_output=True, env=gen_env(env, hashseed),
                           timeout=timeout, cwd=cwd)
    except subprocess.TimeoutExpired:
        return GenResult(False, rc=-999, stderr="timeout", exc_type="Timeout", exc_msg="generation timeout")
    err = p.stderr.decode("utf-8", "replace")
    if p.returncode != 0:
        t, m = _parse_exc(err)
        return GenResult(False, rc=p.returncode, stderr=err, exc_type=t, exc_msg=m)
    try:
        res = plugin_pb2.CodeGeneratorResponse.FromString(p.stdout)
    except Exception as e:
        return GenResult(False, rc=0, stderr=err, exc_type="BadResponse", exc_msg=str(e))
    if res.error:
        return GenResult(False, rc=0, stderr=err, exc_type="ResponseError", exc_msg=res.error)
    return GenResult(True, response=res, raw=p.stdout, rc=0, stderr=err)


def materialise(res, outdir):
    names = []
    for f in res.file:
        path = os.path.join(outdir, f.name)
        os.makedirs(os.path.dirname(path), exist_ok=True)
        with open(path, "w", encoding="utf-8") as fh:
            fh.write(f.content)
        names.append(f.name)
    return names


def run_runner(check_module, script, libroot, timeout=300, extra_path=(), env=None):
    """Execute `check_module.in_runner(script)` in a fresh interpreter that has
    the emitted library on sys.path.  Returns (events|None, rc, stderr)."""
    import json
    sdir = new_scratch("run")
    try:
        sp, op = os.path.join(sdir, "script.json"), os.path.join(sdir, "out.json")
        with open(sp, "w") as fh:
            json.dump(script, fh)
        e = dict(os.environ)
        e["PYTHONHASHSEED"] = "0"
        e["PYTHONDONTWRITEBYTECODE"] = "1"
        e["PYTHONPATH"] = os.pathsep.join([libroot, *extra_path, VERIF])
        e["GRPC_VERBOSITY"] = "NONE"
        e["GRPC_ENABLE_FORK_SUPPORT"] = "0"
        for k in ("http_proxy", "https_proxy", "HTTP_PROXY", "HTTPS_PROXY", "grpc_proxy"):
            e.pop(k, None)
        e["no_proxy"] = e["NO_PROXY"] = "127.0.0.1,localhost"
        e.update(env or {})
        try:
            p = subprocess.run([PY, "-m", "vlib.runner", check_module, sp, op],
                               capture_output=True, env=e, timeout=timeout, cwd=sdir)
        except subprocess.TimeoutExpired as te:
            return None, -999, "runner timeout " + (te.stderr or b"").decode("utf-8", "replace")[-2000:]
        err = p.stderr.decode("utf-8", "replace")
        if not os.path.exists(op):
            return None, p.returncode, err
        with open(op) as fh:
            return json.load(fh), p.returncode, err
    finally:
        shutil.rmtree(sdir, ignore_errors=True)


def build_and_generate(api, scratch, hashseed="0"):
    """api: vlib.apigen.Api.  Returns (req, GenResult, libdir or None)."""
    from vlib import apigen
    req = api.request(scratch)
    g = generate(req, hashseed=hashseed)
    if not g.ok:
        return req, g, None
    lib = os.path.join(scratch, "lib")
    materialise(g.response, lib)
    if api.synth_deps:
        apigen.write_synth_pb2(req, api.synth_deps, lib)
    return req, g, lib


def case_scratch(prefix):
    return os.environ.get("VP_CASE_SCRATCH") or new_scratch(prefix)


def gen_failed_result(g, api=None, extra_mech=None):
    """A well-formed request the plugin could not generate is a violation of the
    property whose generator produced the shape (nobody else samples it)."""
    mech = {"exc_type": g.exc_type, "exc_msg": (g.exc_msg or "")[:120]}
    mech.update(extra_mech or {})
    return {"verdict": "violated", "evaluations": 1, "counters": {"generation_failed": 1},
            "violations": [{"clause": "generation-fails", "detail": g.failure(), "mech": mech}],
            "sample": {"tags": sorted(api.tags)[:20] if api is not None else []}}


def runner_failed_result(ev, rc, err, api=None, extra_mech=None):
    """Result for a runner that produced no events: an import failure of the emitted library is a violation
    (clause library-import-fails); anything else is a harness problem (inconclusive)."""
    if ev and "library_import_error" in ev:
        e = ev["library_import_error"]
        return {"verdict": "violated", "evaluations": 1, "counters": {"library_import_failed": 1},
                "violations": [{"clause": "library-import-fails", "detail": e, "mech": {"exc_type": e["type"], **(extra_mech or {})}}],
                "sample": {"tags": sorted(api.tags)[:20] if api is not None else []}}
    return {"verdict": "inconclusive", "why": f"runner rc={rc} {err[-600:]} {str(ev)[:1500]}"}


def diverse(viol, n=40):
    """At most n violations, taken round-robin over distinct (clause, mechanism) so that a frequent (possibly known) kind can
    never crowd a different kind out of the report."""
    import json as _json
    groups = {}
    for v in viol:
        k = (v.get("clause"), _json.dumps(v.get("mech"), sort_keys=True, default=str))
        groups.setdefault(k, []).append(v)
    out = []
    while len(out) < n and any(groups.values()):
        for k in list(groups):
            if groups[k]:
                out.append(groups[k].pop(0))
                if len(out) >= n:
                    break
    return out
